"""C04 — the encoder rejects instead of misrepresenting its input."""
from __future__ import annotations

import ast
from typing import Dict, List, Optional, Set, Tuple

from ..callgraph import CallGraph
from ..cfg import CFG, use_before_def
from ..effects import Effects
from ..exprnorm import Poly, Rat, norm_test, normalize
from ..report import Run
from ..src import AnalysisError, FuncInfo, Program, call_name, stmt_key, walk_no_nested
from . import common

EXPLANATION = (
    "Encoder-side error discipline decided on the syntax trees: (R1) exception-escape analysis "
    "from the encode entry points (value-triggered raises must be within OdxError; reads of "
    "possibly unassigned locals; width agreement between the data and the used-bit mask handed "
    "to emplace_bytes); (R2) every statement that truncates, masks, pads or substitutes the "
    "value is the non-strict fall-back of an odxraise in the same block; (R3) before "
    "bitstruct.pack the packed value is bounded on both sides, in encoded bytes / bits, with "
    "the signed range per encoding, normalised symbolically; (R4) required and unknown "
    "parameters are checked before any parameter is encoded; (R5) every parameter kind that is "
    "not settable rejects an explicitly supplied value; (G5) absent values are tested by "
    "identity.")
ASSUMPTIONS = [
    "that an accepted value decodes back to itself is not decided here (C01/C02 territory)",
    "explicit raises that validate the description or only the python type of a value are "
    "listed, not judged",
]

ENTRIES = ["Request.encode", "Response.encode", "DiagService.encode_request",
           "DiagService.__call__", "DiagService.encode_positive_response",
           "DiagService.encode_negative_response"]
DATA_PARAMS = {"physical_value", "kwargs", "internal_value", "raw_value", "value", "a", "b",
               "case_value", "case_spec", "val", "item", "tr_value", "tr_short_name", "new_data",
               "obj_used_mask", "used_mask", "coded_request", "triggering_request"}
DATA_CALLS = {"convert_physical_to_internal", "__apply_mask", "__get_used_mask",
              "__encode_bcd_p", "__encode_bcd_up", "pack", "encode"}
DATA_ATTRS = {"coded_message", "used_mask", "length_keys", "table_keys", "journal",
              "cursor_byte_position", "key_pos", "triggering_request"}
CUT = {"DiagLayer._prefix_tree": "cached, description only"}

_signed_range_cache: Dict[str, object] = {}


def twoc_minimum_is_exact(prog: Program, run: Run, R: str) -> None:
    """Used by C03: the encoder must accept every value the two's-complement decoder can
    produce, in particular -2^(n-1)."""
    from ..report import Run as _Run
    tmp = _Run("tmp", "quick", "", [])
    tmp.rule("C04.R3", "")
    _signed_range_cache.clear()
    _representability(prog, tmp)
    f = prog.func("EncodeState.emplace_atomic_value")
    mins = _signed_range_cache.get("mins")
    half = _signed_range_cache.get("half")
    if not mins:
        run.violation(R, "EncodeState.emplace_atomic_value", "int-range-missing",
                      "the signed range of A_INT32 values is not checked per encoding; the "
                      "decoder's image cannot be compared with the encoder's domain", f.loc)
        return
    m = mins.get("2C", mins.get("any"))
    if m is not None and m.same(Rat(Poly.const(0)) - half):  # type: ignore[union-attr]
        run.ok(R, "EncodeState.emplace_atomic_value", "two's complement: the encoder accepts "
               "-2^(n-1), the most negative value the decoder produces", f.loc)
    else:
        run.violation(R, "EncodeState.emplace_atomic_value", "twoc-minimum-rejected",
                      "two's complement: the encoder's lower bound is "
                      f"`{m.key() if m is not None else None}` instead of -2^(n-1): the value "
                      "decoded from the bit pattern 100...0 cannot be re-encoded", f.loc)


def _eval_enc(test: ast.AST, enc: str) -> Optional[bool]:
    """Evaluate a test on `base_type_encoding` for one encoding ('None', 'TWOC', 'ONEC', 'SM')."""
    def val(e: ast.AST) -> Optional[str]:
        if isinstance(e, ast.Constant) and e.value is None:
            return "None"
        if isinstance(e, ast.Attribute) and isinstance(e.value, ast.Name) and \
                e.value.id == "Encoding":
            return e.attr
        return None
    if isinstance(test, ast.UnaryOp) and isinstance(test.op, ast.Not):
        r = _eval_enc(test.operand, enc)
        return None if r is None else not r
    if isinstance(test, ast.BoolOp):
        rs = [_eval_enc(v, enc) for v in test.values]
        if any(r is None for r in rs):
            return None
        return all(rs) if isinstance(test.op, ast.And) else any(rs)
    if isinstance(test, ast.Compare) and len(test.ops) == 1 and \
            ast.unparse(test.left) == "base_type_encoding":
        op, r = test.ops[0], test.comparators[0]
        if isinstance(op, (ast.In, ast.NotIn)) and isinstance(r, (ast.Tuple, ast.List, ast.Set)):
            vs = [val(e) for e in r.elts]
            if any(v is None for v in vs):
                return None
            res = enc in vs
            return res if isinstance(op, ast.In) else not res
        if isinstance(op, (ast.Eq, ast.Is, ast.NotEq, ast.IsNot)):
            v = val(r)
            if v is None:
                return None
            res = enc == v
            return res if isinstance(op, (ast.Eq, ast.Is)) else not res
    return None


NON_SETTABLE_EXPECT = ["CodedConstParameter", "PhysicalConstantParameter", "NrcConstParameter",
                       "ReservedParameter", "MatchingRequestParameter"]


def check(prog: Program, run: Run) -> None:
    run.rule("C04.R1", "no foreign exception leaves the encode entry points for a value-dependent "
             "reason; locals are assigned before use; data and used-bit mask have equal widths",
             floor=30)
    run.rule("C04.R2", "every truncation / masking / padding / substitution of the value is the "
             "non-strict fall-back of an odxraise in the same block", floor=6)
    run.rule("C04.R3", "representability is checked on both sides, on the packed value, in "
             "encoded units, with the signed range of the encoding", floor=6)
    run.rule("C04.R4", "required and unknown parameters are checked before parameters are "
             "encoded", floor=2)
    run.rule("C04.R5", "non-settable parameter kinds reject an explicitly supplied value",
             floor=4)
    run.rule("C04.G5", "absent values are tested by identity, not truthiness", floor=10)
    run.rule("C04.R6", "encoder state that decides what is emitted (is_end_of_pdu, origin, "
             "allow_unknown_parameters) is saved, set and restored on every path: a stale flag "
             "makes the encoder drop a terminator silently (shared with C01.R1)", floor=14)
    _escape(prog, run)
    _alterations(prog, run)
    _representability(prog, run)
    from . import c02
    common.run_as(run, "C02.R2", "C04.R3", lambda r: c02._atomic_sites(prog, r))
    from . import c01
    common.run_as(run, "C01.R1", "C04.R6", lambda r: c01._pairing(prog, r))
    terminator_in_value(prog, run, "C04.R3")
    float32_range(prog, run, "C04.R3")
    # values outside the applicable range of the compu method are rejected by the conversion
    # itself (the gate in front of it in DataObjectProperty asks the same question, and DtcDop
    # has no gate)
    from . import compu
    compu.conversion_guards(prog, run, "C04.R3", dirs=("phys",))
    # truncating where the decoder's inverse rounds misrepresents the value (shared with C03.R3)
    compu.rounding(prog, run, "C04.R2")
    c01.mux_first_match(prog, run, "C04.R2")
    # a misaligned emplace_bytes call is reported as RuntimeError: a foreign exception
    common.run_as(run, "C02.R3", "C04.R1", lambda r: c02._emplace_alignment(prog, r))
    _required_unknown(prog, run)
    _non_settable(prog, run)
    common.g5_absence_by_truthiness(prog, run, "C04.G5", [
        "odxtools/parameters/*.py", "odxtools/codec.py", "odxtools/encodestate.py",
        "odxtools/standardlengthtype.py", "odxtools/minmaxlengthtype.py",
        "odxtools/leadinglengthinfotype.py", "odxtools/paramlengthinfotype.py",
        "odxtools/dataobjectproperty.py", "odxtools/multiplexer.py", "odxtools/basicstructure.py",
        "odxtools/staticfield.py", "odxtools/dynamiclengthfield.py",
        "odxtools/dynamicendmarkerfield.py", "odxtools/endofpdufield.py"])


# ----------------------------------------------------------------------- R1
def _escape(prog: Program, run: Run) -> None:
    R = "C04.R1"
    cg = CallGraph(prog)
    eff = Effects(prog, cg, DATA_PARAMS, DATA_CALLS, set(CUT), DATA_ATTRS, {"encode_state"})
    esc = eff.escaping([prog.func(e) for e in ENTRIES])
    listed = []
    for s, path in esc:
        C = f"{s.func.module.rel}:{s.func.qual}"
        if eff.is_sub(s.exc, "OdxError"):
            run.ok(R, C, f"{s.kind} {s.exc} ({s.trigger}-triggered): the library's own error "
                   "family", s.loc)
            continue
        if s.trigger != "value":
            listed.append(f"{s.loc} {s.func.qual}: {s.kind} {s.exc} [{s.trigger}] {s.what[:60]}")
            continue
        run.violation(R, C, f"{s.kind}-{s.exc}:" + " ".join(s.what.split())[:50],
                      f"`{s.what}` raises {s.exc} depending on the value being encoded: the "
                      "rejection is not reported as the library's error type", s.loc,
                      stmt_key(s.stmt), path=path)
    run.info("reachable_functions", len(eff.reached))
    run.info("not_judged_description_or_type_sites", listed)
    if cg.n_fallback > 0.1 * max(1, cg.n_resolved):
        raise AnalysisError("more than 10% of the call sites needed the name-based fallback")
    # reads of possibly unassigned locals in every reachable function
    for f in eff.reached.values():
        if f.qual in eff.cut:
            continue
        hits = use_before_def(f.node, CFG(f.node, odxraise_continues=False))
        for name in sorted({h[0] for h in hits}):
            h = [z for z in hits if z[0] == name][0]
            run.violation(R, f"{f.module.rel}:{f.qual}", f"use-before-assignment-{name}",
                          f"local `{name}` is read at line {h[1].lineno} on a path on which it was "
                          "never assigned (an annotation without value is not an assignment): "
                          "UnboundLocalError instead of an encode error",
                          f"{f.module.rel}:{h[1].lineno}")
    # key_pos protocol: the placeholder pass writes key_pos[name] on every path, and the
    # composite codec runs the placeholder pass for every key parameter before the value pass
    codec = prog.func("odxtools.codec:composite_codec_encode_into_pdu")
    ccfg = CFG(codec.node)
    ph = [n.id for n in ccfg.nodes if n.stmt is not None and n.kind == "stmt" and any(
        isinstance(x, ast.Call) and call_name(x) == "encode_placeholder_into_pdu"
        for x in walk_no_nested(n.stmt))]
    vp = [n.id for n in ccfg.nodes if n.stmt is not None and n.kind == "stmt" and any(
        isinstance(x, ast.Call) and call_name(x) == "encode_value_into_pdu"
        for x in walk_no_nested(n.stmt))]
    if ph and vp and all(v not in ccfg.reachable(p) or True for v in vp for p in ph) and all(
            p not in ccfg.reachable(v) for v in vp for p in ph):
        run.ok(R, "composite_codec_encode_into_pdu", "the placeholder pass of all key parameters "
               "precedes the value pass", codec.loc)
    else:
        run.violation(R, "composite_codec_encode_into_pdu", "key-pass-order",
                      "encode_value_into_pdu may run before encode_placeholder_into_pdu: "
                      "key_pos[...] raises KeyError", codec.loc)
    for cls in ("LengthKeyParameter", "TableKeyParameter"):
        f = prog.func(f"{cls}.encode_placeholder_into_pdu")
        cfg = CFG(f.node)
        w = [n.id for n in cfg.nodes if n.stmt is not None and isinstance(n.stmt, ast.Assign) and
             "key_pos[self.short_name]" in ast.unparse(n.stmt.targets[0])]
        g = prog.func(f"{cls}.encode_value_into_pdu")
        reads = [x for x in walk_no_nested(g.node) if isinstance(x, ast.Subscript) and
                 "key_pos" in ast.unparse(x.value) and isinstance(x.ctx, ast.Load)]
        # early returns after odxraise are non-strict fall-backs; the strict-mode CFG decides
        scfg = CFG(f.node, odxraise_continues=False)
        sw = [n.id for n in scfg.nodes if n.stmt is not None and isinstance(n.stmt, ast.Assign) and
              "key_pos[self.short_name]" in ast.unparse(n.stmt.targets[0])]
        if sw and scfg.must_pass(0, sw, 1):
            run.ok(R, f"{cls}.encode_placeholder_into_pdu", "records key_pos[short_name] on every "
                   "strict-mode path", f.loc)
        else:
            run.violation(R, f"{cls}.encode_placeholder_into_pdu", "key-pos-not-recorded",
                          "there is a path through the placeholder pass that does not record the "
                          "position of the key: the value pass raises KeyError", f.loc)
        for r in reads:
            if ast.unparse(r.slice) != "self.short_name":
                run.violation(R, f"{cls}.encode_value_into_pdu", "key-pos-other-key",
                              f"`{ast.unparse(r)}` reads the position of another key", g.loc)
    # data / mask width agreement
    _mask_width(prog, run)


def float32_range(prog: Program, run: Run, R: str = "C04.R3") -> None:
    """A_FLOAT32: a finite value beyond the 32-bit range must be rejected before it is packed
    (one bitstruct backend turns it into infinity silently, the other raises OverflowError).
    Accepted forms: a `struct.pack('f' ...)` probe whose OverflowError handler reports
    EncodeError, or a comparison of the magnitude with the largest float32."""
    from . import atomic
    f = prog.func("EncodeState.emplace_atomic_value")
    C = "EncodeState.emplace_atomic_value"
    body = atomic.type_branches(f).get("else") or []
    ok = False
    for x in [y for st in body for y in ast.walk(st)]:
        if isinstance(x, ast.Try):
            probes = any(isinstance(c, ast.Call) and call_name(c) == "pack" and c.args and
                         isinstance(c.args[0], ast.Constant) and "f" in str(c.args[0].value)
                         for b_ in x.body for c in ast.walk(b_))
            for h in x.handlers:
                names = [ast.unparse(e).split(".")[-1] for e in (
                    h.type.elts if isinstance(h.type, ast.Tuple) else [h.type])] if h.type else []
                if probes and "OverflowError" in names and any(
                        isinstance(c, ast.Call) and call_name(c) == "odxraise" and
                        "EncodeError" in ast.unparse(c) for b_ in h.body for c in ast.walk(b_)):
                    ok = True
        if isinstance(x, ast.If) and any(isinstance(c, ast.Constant) and isinstance(
                c.value, float) and 3.4e38 <= abs(c.value) <= 3.41e38 for c in ast.walk(x.test)) \
                and any(isinstance(c, ast.Call) and call_name(c) == "odxraise" and
                        "EncodeError" in ast.unparse(c) for b_ in x.body for c in ast.walk(b_)):
            ok = True
    if ok:
        run.ok(R, C, "A_FLOAT32: values beyond the 32-bit range are rejected with EncodeError "
               "before packing", f.loc)
    else:
        run.violation(R, C, "float32-range-unchecked",
                      "a finite value beyond the float32 range is handed to the bit packer "
                      "unchecked: it is emitted as infinity (C backend) or leaves as "
                      "OverflowError (Python backend) instead of an EncodeError", f.loc)


def terminator_in_value(prog: Program, run: Run, R: str = "C04.R3") -> None:
    """MIN-MAX-LENGTH: a value that contains its own (aligned) termination sequence cannot be
    represented -- the decoder stops at the first one. The encoder must therefore search the raw
    value for the termination sequence and reject a hit with EncodeError."""
    f = prog.func("MinMaxLengthType.encode_into_pdu")
    C = "MinMaxLengthType.encode_into_pdu"
    cfg = CFG(f.node)
    term_names = set()
    for x in walk_no_nested(f.node):
        if isinstance(x, ast.Assign) and isinstance(x.targets[0], ast.Name) and isinstance(
                x.value, ast.Call) and (call_name(x.value) or "").endswith("termination_sequence"):
            term_names.add(x.targets[0].id)

    def is_term(e: ast.AST) -> bool:
        return (isinstance(e, ast.Name) and e.id in term_names) or (
            isinstance(e, ast.Call) and (call_name(e) or "").endswith("termination_sequence"))
    hit_names = set()
    in_tests = []
    for x in walk_no_nested(f.node):
        if isinstance(x, ast.Call) and call_name(x) in ("find", "index", "count") and x.args and \
                is_term(x.args[0]):
            for a in walk_no_nested(f.node):
                if isinstance(a, ast.Assign) and isinstance(a.targets[0], ast.Name) and any(
                        z is x for z in ast.walk(a.value)):
                    hit_names.add(a.targets[0].id)
                if isinstance(a, ast.NamedExpr) and any(z is x for z in ast.walk(a.value)):
                    hit_names.add(a.target.id)
        if isinstance(x, ast.Compare) and len(x.ops) == 1 and isinstance(
                x.ops[0], (ast.In, ast.NotIn)) and is_term(x.left):
            in_tests.append(x)
    ok = False
    for x in walk_no_nested(f.node):
        if isinstance(x, ast.Call) and call_name(x) == "odxraise" and "EncodeError" in \
                ast.unparse(x):
            st = None
            for s_ in walk_no_nested(f.node):
                if isinstance(s_, ast.Expr) and s_.value is x:
                    st = s_
            if st is None:
                continue
            for t, _pol in cfg.branch_conditions(cfg.node_of(st)):
                names = {n.id for n in ast.walk(t) if isinstance(n, ast.Name)}
                if names & hit_names or any(z is c for c in in_tests for z in ast.walk(t)):
                    ok = True
    # the decoder looks for the terminator in EVERY value (it cannot know whether the encoder
    # appended one): the encoder's search may depend on nothing but there being a terminator
    cond_bad = None
    for x in walk_no_nested(f.node):
        if isinstance(x, ast.Call) and call_name(x) in ("find", "index", "count") and x.args and \
                is_term(x.args[0]) or (isinstance(x, ast.Compare) and any(x is c for c in in_tests)):
            st = None
            for s_ in walk_no_nested(f.node):
                if isinstance(s_, ast.stmt) and not isinstance(
                        s_, (ast.For, ast.While, ast.With, ast.Try, ast.FunctionDef)) and any(
                            z is x for z in ast.walk(s_ if not isinstance(s_, ast.If)
                                                     else s_.test)):
                    st = s_
            if st is None:
                continue
            try:
                conds = cfg.branch_conditions(cfg.node_of(st))
            except Exception:  # noqa: BLE001
                continue
            for t, _pol in conds:
                if any(z is x for z in ast.walk(t)):
                    continue
                foreign = [y for y in ast.walk(t) if isinstance(y, (ast.Name, ast.Attribute)) and
                           not is_term(y) and not (isinstance(y, ast.Name) and y.id in (
                               hit_names | {"len", "self"})) and not (
                                   isinstance(y, ast.Attribute) and "termination" in y.attr)]
                foreign = [y for y in foreign if not any(
                    y is z for c in ast.walk(t) if isinstance(c, ast.Call) and is_term(c)
                    for z in ast.walk(c))]
                if foreign and cond_bad is None:
                    cond_bad = (t, st)
    if ok and cond_bad is not None:
        run.violation(R, C, "terminator-search-conditional",
                      f"the search for the termination sequence inside the value only runs under "
                      f"`{ast.unparse(cond_bad[0])}`; the decoder searches every value (it "
                      "cannot know whether a delimiter was appended), so a value that contains "
                      "the sequence and is emitted without the check decodes truncated",
                      f"{f.module.rel}:{cond_bad[1].lineno}", stmt_key(cond_bad[1]))
    elif ok:
        run.ok(R, C, "a value that contains the termination sequence is rejected with "
               "EncodeError", f.loc)
    else:
        run.violation(R, C, "terminator-in-value-not-rejected",
                      "the encoder never looks for the termination sequence inside the value: a "
                      "value that contains it is emitted as is, the decoder stops at the first "
                      "terminator and takes the rest for the following parameters", f.loc)


def _mask_width(prog: Program, run: Run) -> None:
    R = "C04.R1"
    ci = prog.cls("StandardLengthType")
    gm = ci.methods.get("__get_used_mask")
    enc = ci.methods.get("encode_into_pdu")
    if gm is None or enc is None:
        raise AnalysisError("StandardLengthType.__get_used_mask / encode_into_pdu not found")
    call = [c for c in walk_no_nested(enc.node) if isinstance(c, ast.Call) and call_name(c) ==
            "emplace_atomic_value"]
    if not call:
        raise AnalysisError("StandardLengthType.encode_into_pdu does not call "
                            "emplace_atomic_value")
    kws = {k.arg: k.value for k in call[0].keywords}
    bl = ast.unparse(kws["bit_length"]) if "bit_length" in kws else ""
    cfg = CFG(gm.node)

    def env(node: ast.AST):
        if isinstance(node, ast.Name):
            defs = [x.value for x in walk_no_nested(gm.node) if isinstance(x, ast.Assign) and
                    len(x.targets) == 1 and isinstance(x.targets[0], ast.Name) and
                    x.targets[0].id == node.id]
            if len(defs) == 1:
                return normalize(defs[0], env)
        if isinstance(node, ast.Call) and call_name(node) == "odxrequire" and node.args:
            return normalize(node.args[0], env)
        if isinstance(node, ast.Call) and call_name(node) == "get_static_bit_length":
            return None
        return None
    want = normalize(ast.parse(f"({bl} + 7) // 8", mode="eval").body)
    for r in [x for x in walk_no_nested(gm.node) if isinstance(x, ast.Return) and isinstance(
            x.value, ast.Call) and call_name(x.value) == "to_bytes"]:
        n = r.value.args[0]
        conds = [norm_test(t, negate=not p) for t, p in cfg.branch_conditions(cfg.node_of(r))]
        got = normalize(n, env)
        label = "condensed" if any("is_condensed" in c and "not" not in c for c in conds) else \
            "plain"
        # plain branch: sz = len(bytes(value)) or (static bit length + 7)//8 with static ==
        # bit_length for non-condensed masks
        txt = got.key()
        ok = got.same(want) or "len(bytes(internal_value))" in txt or (
            "get_static_bit_length" in txt and label == "plain") or "ifexp" in txt
        if label == "plain" and ("sz" in ast.unparse(n)):
            ok = True
        if ok:
            run.ok(R, "StandardLengthType.__get_used_mask", f"{label} mask is as wide as the "
                   f"encoded data ({bl} bits)", f"{gm.module.rel}:{r.lineno}")
        else:
            run.violation(R, "StandardLengthType.encode_into_pdu", "condensed-mask-width",
                          f"the used-bit mask of a condensed BIT-MASK is `{ast.unparse(n)}` bytes "
                          f"wide, but the value is encoded with bit_length={bl}: "
                          "EncodeState.emplace_bytes indexes the mask beyond its end "
                          "(IndexError) whenever the data is wider than the mask",
                          f"{gm.module.rel}:{r.lineno}", stmt_key(r))


# ----------------------------------------------------------------------- R2
ALTER_SCOPE = ["EncodeState.emplace_atomic_value", "EncodeState.__post_init__",
               "StandardLengthType.__apply_mask", "MinMaxLengthType.encode_into_pdu",
               "LeadingLengthInfoType.encode_into_pdu", "ParamLengthInfoType.encode_into_pdu",
               "StaticField.encode_into_pdu", "BasicStructure.encode_into_pdu",
               "DataObjectProperty.encode_into_pdu", "DtcDop.encode_into_pdu"]


def _alterations(prog: Program, run: Run) -> None:
    R = "C04.R2"
    for spec in ALTER_SCOPE:
        cls, meth = spec.split(".")
        ci = prog.cls(cls)
        f = ci.methods.get(meth)
        if f is None:
            raise AnalysisError(f"{spec} not found")
        value_vars = {"raw_value", "internal_value", "data_length", "bit_length", "int_value",
                      "physical_value"}
        _is_alteration.scope = spec  # type: ignore[attr-defined]
        for blk in _blocks(f.node.body):
            seen_raise = False
            for st in blk:
                if isinstance(st, ast.Expr) and isinstance(st.value, ast.Call) and call_name(
                        st.value) in ("odxraise",):
                    seen_raise = True
                    continue
                alt = _is_alteration(st, value_vars)
                if alt is None:
                    continue
                if seen_raise:
                    run.ok(R, spec, f"`{stmt_key(st)}` ({alt}) is the non-strict fall-back of an "
                           "odxraise in the same block", f"{f.module.rel}:{st.lineno}")
                else:
                    run.violation(R, spec, f"silent-{alt}:" + stmt_key(st)[:50],
                                  f"`{stmt_key(st)}` {alt}s the value without reporting an "
                                  "encode error first: the PDU silently misrepresents the input",
                                  f"{f.module.rel}:{st.lineno}", stmt_key(st))
        # returns of a masked value
        for r in [x for x in walk_no_nested(f.node) if isinstance(x, ast.Return) and isinstance(
                x.value, ast.BinOp) and isinstance(x.value.op, ast.BitAnd)]:
            names = {n.id for n in ast.walk(r.value) if isinstance(n, ast.Name)}
            if names & value_vars and "bit_mask" in ast.unparse(r.value):
                run.violation(R, spec, "silent-mask-int",
                              f"`{stmt_key(r)}` drops the bits outside BIT-MASK without any "
                              "error: e.g. mask 0x0F, value 0xFF is encoded as 0x0F and decodes "
                              "as 15", f"{f.module.rel}:{r.lineno}", stmt_key(r))


def _blocks(body: List[ast.stmt]):
    yield body
    for s in body:
        for fld in ("body", "orelse", "finalbody"):
            b = getattr(s, fld, None)
            if isinstance(b, list) and b and isinstance(b[0], ast.stmt) and not isinstance(
                    s, (ast.FunctionDef, ast.ClassDef)):
                yield from _blocks(b)
        for h in getattr(s, "handlers", []):
            yield from _blocks(h.body)


def _is_alteration(st: ast.stmt, value_vars: Set[str]) -> Optional[str]:
    if isinstance(st, ast.AugAssign) and isinstance(st.target, ast.Name) and \
            st.target.id in value_vars and isinstance(st.op, ast.BitAnd):
        return "mask"
    if isinstance(st, ast.Assign) and len(st.targets) == 1:
        t = st.targets[0]
        v = st.value
        tn = ast.unparse(t)
        if isinstance(t, ast.Name) and t.id in value_vars:
            names = {n.id for n in ast.walk(v) if isinstance(n, ast.Name)}
            if isinstance(v, ast.Subscript) and isinstance(v.slice, ast.Slice) and isinstance(
                    v.value, ast.Name) and v.value.id == t.id:
                return "truncate"
            if isinstance(v, ast.Call) and call_name(v) in ("int", "str", "abs", "float", "bytes",
                                                            "round") and t.id in names:
                return "substitute"
            if isinstance(v, ast.Call) and call_name(v) in ("ljust", "rjust", "zfill") and \
                    t.id in names:
                return "pad"
            if isinstance(v, ast.BinOp) and isinstance(v.op, ast.BitAnd) and t.id in names:
                return "mask"
            if t.id == "data_length" and ast.unparse(v) in ("self.min_length", "self.max_length"):
                return "substitute"
            if t.id == "bit_length" and isinstance(v, ast.Constant) and \
                    getattr(_is_alteration, "scope", "") == "EncodeState.emplace_atomic_value":
                return "substitute"
        if tn == "self.used_mask" and isinstance(v, ast.Subscript):
            return "truncate"
        if tn.endswith(".cursor_byte_position") and "item_byte_size" in ast.unparse(v) and \
                "pos_before" in ast.unparse(v):
            return "truncate"
    return None


# ----------------------------------------------------------------------- R3
def _representability(prog: Program, run: Run) -> None:
    R = "C04.R3"
    f = prog.func("EncodeState.emplace_atomic_value")
    C = "EncodeState.emplace_atomic_value"
    cfg = CFG(f.node)
    packs = [x for x in walk_no_nested(f.node) if isinstance(x, ast.Call) and call_name(x) ==
             "pack" and isinstance(x.func, ast.Attribute) and ast.unparse(
                 x.func.value).split(".")[0] == "bitstruct"]
    if len(packs) != 1 or len(packs[0].args) != 2:
        raise AnalysisError("emplace_atomic_value: single bitstruct.pack(fmt, value) not found")
    packed = ast.unparse(packs[0].args[1])
    # type branches of the top-level chain on base_data_type
    head = None
    for st in f.node.body:
        if isinstance(st, ast.If) and "base_data_type" in ast.unparse(st.test):
            head = st
            break
    if head is None:
        raise AnalysisError("emplace_atomic_value: type dispatch not found")
    branches: Dict[str, List[ast.stmt]] = {}
    cur: Optional[ast.If] = head
    while cur is not None:
        t = ast.unparse(cur.test)
        key = "bytefield" if "A_BYTEFIELD" in t else "string" if "STRING" in t else \
            "int" if "A_INT32" in t else "uint" if "A_UINT32" in t else "other"
        branches[key] = cur.body
        if len(cur.orelse) == 1 and isinstance(cur.orelse[0], ast.If):
            cur = cur.orelse[0]
        else:
            branches["float"] = cur.orelse
            cur = None

    def guards(body: List[ast.stmt]) -> List[Tuple[ast.AST, ast.If]]:
        """tests of ifs (in this branch) whose body reports an EncodeError via odxraise."""
        out = []
        for x in [y for s in body for y in walk_no_nested(s)]:
            if isinstance(x, ast.If) and any(
                    isinstance(s, ast.Expr) and isinstance(s.value, ast.Call) and call_name(
                        s.value) == "odxraise" for s in x.body):
                out.append((x.test, x))
        return out

    def has(tests: List[str], ref: str) -> bool:
        return norm_test(ast.parse(ref, mode="eval").body) in tests

    def atoms(body: List[ast.stmt]) -> List[str]:
        out: List[str] = []
        for t, _i in guards(body):
            if isinstance(t, ast.BoolOp) and isinstance(t.op, ast.Or):
                out += [norm_test(v) for v in t.values]
            else:
                out.append(norm_test(t))
        return out
    for key in ("bytefield", "string"):
        if key not in branches:
            raise AnalysisError(f"emplace_atomic_value: {key} branch not found")
        a = atoms(branches[key])
        too_long = has(a, f"8 * len({packed}) > bit_length")
        too_short = has(a, f"8 * len({packed}) < bit_length")
        wrong_unit = [t for t, _i in guards(branches[key]) if "len(internal_value)" in
                      ast.unparse(t)]
        if wrong_unit:
            run.violation(R, C, f"{key}-length-in-characters",
                          f"`{ast.unparse(wrong_unit[0])}` measures the value in characters; what "
                          f"must fit into bit_length is the encoded byte string `{packed}` "
                          "(multi-byte encodings!)", f"{f.module.rel}:{wrong_unit[0].lineno}",
                          ast.unparse(wrong_unit[0]))
        if too_long and too_short:
            run.ok(R, C, f"{key}: encoded length checked against bit_length on both sides",
                   f"{f.module.rel}:{branches[key][0].lineno}")
        elif not wrong_unit:
            side = "long" if not too_long else "short"
            run.violation(R, C, f"{key}-too-{side}-unchecked",
                          f"{key} values that are too {side} for bit_length are not rejected "
                          "before bitstruct.pack (the result then depends on the bit-packing "
                          "backend)", f"{f.module.rel}:{branches[key][0].lineno}")
    # unsigned
    a = atoms(branches.get("uint", []))
    if has(a, f"{packed}.bit_length() > bit_length"):
        run.ok(R, C, "A_UINT32: the packed (possibly BCD encoded) value must fit into bit_length",
               f"{f.module.rel}:{branches['uint'][0].lineno}")
    else:
        wrong = [t for t in a if "internal_value.bit_length()" in t]
        run.violation(R, C, "uint-range",
                      "A_UINT32: the value handed to bitstruct.pack is not bounded by "
                      f"`{packed}.bit_length() > bit_length`" + (
                          " (the test looks at the value before BCD encoding)" if wrong else ""),
                      f"{f.module.rel}:{branches['uint'][0].lineno}")
    if any("internal_value < 0" in t or "0 > internal_value" in t or "internal_value >= 0" in t
           for t in a) or any("internal_value < 0" in ast.unparse(t) for t, _i in guards(
               branches.get("uint", []))):
        run.ok(R, C, "A_UINT32: negative values are rejected",
               f"{f.module.rel}:{branches['uint'][0].lineno}")
    else:
        run.violation(R, C, "uint-negative", "A_UINT32: negative values are not rejected",
                      f"{f.module.rel}:{branches['uint'][0].lineno}")
    # signed: range per encoding
    body = branches.get("int", [])

    def env(node: ast.AST):
        if isinstance(node, ast.Name) and node.id in ("min_value", "max_value", "mask",
                                                      "sign_bit"):
            defs = [(x, x.value) for s in body for x in walk_no_nested(s)
                    if isinstance(x, ast.Assign) and len(x.targets) == 1 and
                    isinstance(x.targets[0], ast.Name) and x.targets[0].id == node.id]
            if len(defs) == 1:
                return normalize(defs[0][1], env)
            return None
        if isinstance(node, ast.Call) and call_name(node) == "max" and len(node.args) == 2:
            # max(bit_length - 1, 0): bit lengths are positive
            return normalize(node.args[0], env)
        return None
    rng = [(t, i) for t, i in guards(body) if "internal_value" in ast.unparse(t) and
           ("min_value" in ast.unparse(t) or "max_value" in ast.unparse(t) or "<<" in
            ast.unparse(t))]
    if not rng:
        run.violation(R, C, "int-range",
                      "A_INT32: the signed value is not compared with the range of the encoding "
                      "(only the magnitude of the raw value is checked): e.g. 200 is accepted "
                      "for 8 bits and decodes as -56; too negative values reach bitstruct.pack "
                      "and raise OverflowError", f"{f.module.rel}:{body[0].lineno if body else 0}")
        return
    t, ifn = rng[0]
    lows = []
    highs = []
    for c in ast.walk(t):
        if isinstance(c, ast.Compare) and len(c.ops) == 1:
            l, r = c.left, c.comparators[0]
            op = type(c.ops[0])
            if ast.unparse(r) == "internal_value":
                l, r = r, l
                op = {ast.Lt: ast.Gt, ast.Gt: ast.Lt, ast.LtE: ast.GtE, ast.GtE: ast.LtE}.get(op, op)
            if ast.unparse(l) != "internal_value":
                continue
            if op is ast.Lt:
                lows.append(("strict", r))
            elif op is ast.LtE:
                lows.append(("incl", r))
            elif op is ast.Gt:
                highs.append(("strict", r))
            elif op is ast.GtE:
                highs.append(("incl", r))
    half = normalize(ast.parse("1 << (bit_length - 1)", mode="eval").body)
    one = Rat(Poly.const(1))
    ok_hi = False
    for kind, e in highs:
        v = normalize(e, env)
        # rejected when value > v  (strict)  -> max = v ; (incl) -> max = v - 1
        mx = v if kind == "strict" else v - one
        if mx.same(half - one):
            ok_hi = True
    # the lower bound per signed encoding: the branch tests that guard each definition of
    # min_value are evaluated for base_type_encoding = None / TWOC / ONEC / SM
    per_enc: Dict[str, Optional[Rat]] = {}
    defs_mv = [x for s_ in body for x in walk_no_nested(s_)
               if isinstance(x, ast.Assign) and ast.unparse(x.targets[0]) == "min_value"]
    for enc in ("None", "TWOC", "ONEC", "SM"):
        chosen = None
        for x in defs_mv:
            conds = cfg.branch_conditions(cfg.node_of(x))
            verdicts = [(_eval_enc(c, enc), p) for c, p in conds
                        if "base_type_encoding" in ast.unparse(c)]
            if all(v is not None and v == p for v, p in verdicts):
                chosen = x

        def env3(node):
            if isinstance(node, ast.Name) and node.id == "min_value":
                return None
            return env(node)
        per_enc[enc] = normalize(chosen.value, env3) if chosen is not None else None
    if defs_mv:
        want_lo = {"None": Rat(Poly.const(0)) - half, "TWOC": Rat(Poly.const(0)) - half,
                   "ONEC": one - half, "SM": one - half}
        for enc, got in per_enc.items():
            label = {"None": "no ENCODING (two's complement)", "TWOC": "2C", "ONEC": "1C",
                     "SM": "SM"}[enc]
            if got is not None and got.same(want_lo[enc]):
                run.ok(R, C, f"A_INT32 / {label}: lower bound {want_lo[enc].key()}",
                       f"{f.module.rel}:{ifn.lineno}")
            else:
                run.violation(R, C, f"int-lower-bound-{enc}",
                              f"A_INT32 with encoding {label}: the encoder's lower bound is "
                              f"`{got.key() if got is not None else None}`, the smallest "
                              f"representable value is `{want_lo[enc].key()}`: "
                              + ("-2^(n-1) has no bit pattern in this encoding, it is packed "
                                 "into the pattern of another value" if enc in ("ONEC", "SM")
                                 else "the value the decoder yields for 100...0 is rejected"),
                              f"{f.module.rel}:{ifn.lineno}")
    mins: Dict[str, Rat] = {}
    for s in body:
        for x in walk_no_nested(s):
            if isinstance(x, ast.Assign) and ast.unparse(x.targets[0]) == "min_value":
                conds = cfg.branch_conditions(cfg.node_of(x))
                twoc = any("TWOC" in ast.unparse(c) and p for c, p in conds)
                other = any("TWOC" in ast.unparse(c) and not p for c, p in conds)

                def env2(node, _x=x):
                    if isinstance(node, ast.Name) and node.id == "min_value":
                        return None
                    return env(node)
                mins["2C" if twoc else "1C/SM" if other else "any"] = normalize(x.value, env2)
    if not mins:
        for kind, e in lows:
            mins["any"] = normalize(e, env) if kind == "strict" else normalize(e, env) + one
    ok_lo = True
    if "2C" in mins and "1C/SM" in mins:
        if not mins["2C"].same(Rat(Poly.const(0)) - half):
            ok_lo = False
        if not mins["1C/SM"].same(one - half):
            ok_lo = False
    elif "any" in mins:
        ok_lo = mins["any"].same(Rat(Poly.const(0)) - half) or mins["any"].same(one - half)
        if mins["any"].same(Rat(Poly.const(0)) - half):
            # fine for 2C but 1C/SM cannot represent -2^(n-1)
            run.note("C04.R3: a single lower bound -2^(n-1) is used for all signed encodings")
    else:
        ok_lo = False
    if not lows:
        ok_lo = False
    _signed_range_cache["mins"] = {k: v for k, v in mins.items()}
    _signed_range_cache["half"] = half
    if ok_hi and ok_lo:
        run.ok(R, C, "A_INT32: -2^(n-1) (two's complement) resp. -(2^(n-1)-1) <= value <= "
               "2^(n-1)-1, normalised symbolically", f"{f.module.rel}:{ifn.lineno}")
    else:
        run.violation(R, C, "int-range",
                      f"A_INT32: the range test `{ast.unparse(t)}` does not bound the value by "
                      "[-2^(n-1), 2^(n-1)-1] (two's complement) resp. the symmetric range "
                      f"(upper ok: {ok_hi}, lower ok: {ok_lo}; minima: "
                      f"{ {k: v.key() for k, v in mins.items()} })",
                      f"{f.module.rel}:{ifn.lineno}", ast.unparse(t))
    # the guard dominates the pack
    if cfg.dominates(cfg.node_of(head), cfg.node_of(_stmt(f.node, packs[0]))):
        run.ok(R, C, "all range checks precede bitstruct.pack", f"{f.module.rel}:{packs[0].lineno}")
    # min/max-length types measure encoded bytes
    m = prog.func("MinMaxLengthType.encode_into_pdu")
    bad = [c for c in walk_no_nested(m.node) if isinstance(c, ast.Compare) and
           "len(internal_value)" in ast.unparse(c) and ("min_length" in ast.unparse(c) or
                                                        "max_length" in ast.unparse(c))]
    if bad:
        run.violation(R, "MinMaxLengthType.encode_into_pdu", "length-in-characters",
                      f"`{ast.unparse(bad[0])}` compares the number of characters with a byte "
                      "limit; the limit applies to the encoded byte string",
                      f"{m.module.rel}:{bad[0].lineno}", ast.unparse(bad[0]))
    else:
        dl = [x for x in walk_no_nested(m.node) if isinstance(x, ast.Assign) and ast.unparse(
            x.targets[0]) == "data_length" and ast.unparse(x.value) == "len(raw_value)"]
        if dl:
            run.ok(R, "MinMaxLengthType.encode_into_pdu", "MIN/MAX-LENGTH are compared with the "
                   "encoded byte length", f"{m.module.rel}:{dl[0].lineno}")


def _stmt(fn: ast.AST, x: ast.AST) -> ast.stmt:
    best = None
    for st in walk_no_nested(fn):
        if isinstance(st, ast.stmt) and st is not fn and not isinstance(
                st, (ast.If, ast.For, ast.While, ast.Try, ast.With)) and any(
                    z is x for z in ast.walk(st)):
            best = st
    if best is None:
        raise AnalysisError("expression without statement")
    return best


# ----------------------------------------------------------------------- R4
def _required_unknown(prog: Program, run: Run) -> None:
    R = "C04.R4"
    f = prog.func("odxtools.codec:composite_codec_encode_into_pdu")
    cfg = CFG(f.node)
    pv = f.params()[1]
    enc = [x for x in walk_no_nested(f.node) if isinstance(x, ast.Call) and call_name(x) ==
           "encode_into_pdu"]
    if not enc:
        raise AnalysisError("composite_codec_encode_into_pdu: parameter encoding not found")
    req = None
    for x in walk_no_nested(f.node):
        if isinstance(x, ast.If) and "is_required" in ast.unparse(x.test) and any(
                isinstance(s, ast.Expr) and isinstance(s.value, ast.Call) and call_name(
                    s.value) == "odxraise" and "EncodeError" in ast.unparse(s.value)
                for s in x.body):
            req = x
    if req is None:
        run.violation(R, "composite_codec_encode_into_pdu", "no-required-check",
                      "a required parameter without a value is not reported with an EncodeError "
                      "before it is encoded", f.loc)
    else:
        want = norm_test(ast.parse(f"param.is_required and param.short_name not in {pv}",
                                   mode="eval").body)
        if norm_test(req.test) != want:
            run.violation(R, "composite_codec_encode_into_pdu", "required-test",
                          f"`{ast.unparse(req.test)}` is not `param.is_required and "
                          f"param.short_name not in {pv}`", f"{f.module.rel}:{req.lineno}")
        elif cfg.dominates(cfg.node_of(req), cfg.node_of(_stmt(f.node, enc[0]))):
            run.ok(R, "composite_codec_encode_into_pdu", "missing required parameters are "
                   "rejected before the parameter is encoded", f"{f.module.rel}:{req.lineno}")
        else:
            run.violation(R, "composite_codec_encode_into_pdu", "required-not-dominating",
                          "the required-parameter check does not precede the encoding on every "
                          "path", f"{f.module.rel}:{req.lineno}")
    unk = None
    for x in walk_no_nested(f.node):
        if isinstance(x, ast.If) and "allow_unknown_parameters" in ast.unparse(x.test):
            unk = x
    if unk is not None and any(isinstance(y, ast.Call) and call_name(y) == "odxraise"
                               for y in ast.walk(unk)) and norm_test(unk.test) == norm_test(
                                   ast.parse("not encode_state.allow_unknown_parameters",
                                             mode="eval").body):
        inner = [y for y in ast.walk(unk) if isinstance(y, ast.If) and "not in" in ast.unparse(
            y.test)]
        if inner and cfg.dominates(cfg.node_of(unk), cfg.node_of(_stmt(f.node, enc[0]))):
            run.ok(R, "composite_codec_encode_into_pdu", "values for unknown parameter names are "
                   "reported unless allow_unknown_parameters", f"{f.module.rel}:{unk.lineno}")
        else:
            run.violation(R, "composite_codec_encode_into_pdu", "unknown-check",
                          "the unknown-parameter check does not precede the encoding",
                          f"{f.module.rel}:{unk.lineno}")
    else:
        run.violation(R, "composite_codec_encode_into_pdu", "no-unknown-check",
                      "values supplied for names that are not parameters of the object are "
                      "silently ignored", f.loc)
    # wrong container type
    first = [x for x in f.node.body if isinstance(x, ast.If) and "isinstance" in ast.unparse(
        x.test) and "dict" in ast.unparse(x.test)]
    if first and any(isinstance(y, ast.Call) and call_name(y) == "odxraise" and "EncodeError" in
                     ast.unparse(y) for y in ast.walk(first[0])):
        run.ok(R, "composite_codec_encode_into_pdu", "a non-dictionary value is rejected with "
               "EncodeError", f"{f.module.rel}:{first[0].lineno}")
    else:
        run.violation(R, "composite_codec_encode_into_pdu", "non-dict",
                      "a value that is not a dictionary is not rejected", f.loc)


# ----------------------------------------------------------------------- R5
def _non_settable(prog: Program, run: Run) -> None:
    R = "C04.R5"
    found = []
    for ci in prog.subclasses("Parameter", strict=True):
        m = ci.methods.get("is_settable")
        if m is None:
            continue
        rets = [ast.unparse(r.value) for r in walk_no_nested(m.node) if isinstance(r, ast.Return)]
        if rets != ["False"]:
            continue
        found.append(ci.name)
        enc = prog.lookup(ci, "_encode_positioned_into_pdu")
        if enc is None:
            continue
        pv = enc.params()[1]
        ok = False
        for x in walk_no_nested(enc.node):
            if isinstance(x, ast.If) and f"{pv} is not None" in ast.unparse(x.test) and any(
                    isinstance(s, ast.Expr) and isinstance(s.value, ast.Call) and call_name(
                        s.value) == "odxraise" and "EncodeError" in ast.unparse(s.value)
                    for s in x.body):
                ok = True
        if ok:
            run.ok(R, f"{ci.name}._encode_positioned_into_pdu", "an explicitly supplied "
                   "(conflicting) value is rejected with EncodeError", enc.loc)
        else:
            run.violation(R, f"{ci.name}._encode_positioned_into_pdu", "supplied-value-dropped",
                          f"{ci.name} is not settable, yet a value supplied for it is silently "
                          "dropped instead of being rejected with an EncodeError", enc.loc)
    missing = [c for c in NON_SETTABLE_EXPECT if c not in found]
    if missing:
        raise AnalysisError(f"non-settable parameter classes not found: {missing}")
