"""C17 — strict mode is honoured everywhere (who-may-read / who-may-write rule).

Decided statically, whole package:
 R1 nobody binds ``odxtools.exceptions.strict_mode`` at import time (or caches
    it in an attribute / global);
 R2 ``odxraise`` reads the module global at call time and raises exactly when
    it is true; ``odxassert`` / ``odxrequire`` only go through ``odxraise``;
 R3 every writer outside the initialiser saves the old value and restores it
    in a ``finally``;
 R4 every call-time read of the flag only selects between "raise" and "do not
    raise" (the error path), so a valid operation cannot depend on the mode.
"""
from __future__ import annotations

import ast
from typing import List, Optional, Tuple

from ..cfg import CFG, EXIT, RAISE
from ..report import Run
from ..src import (AnalysisError, FuncInfo, Module, Program, attr_chain, call_name, stmt_key,
                   walk_no_nested)

EXPLANATION = (
    "Whole-package who-may-read/who-may-write analysis of odxtools.exceptions.strict_mode over "
    "the syntax trees of every module: import statements, module/class-level expressions, "
    "default arguments and function bodies are scanned for the flag (resolved through each "
    "module's import-alias map); odxraise/odxassert/odxrequire are checked on their CFG.")
ASSUMPTIONS = [
    "the flag is only reached by name (import, attribute chain, getattr with a literal); "
    "reflection such as vars(module)['strict_mode'] is out of scope",
    "R4 judges the syntactic role of a read (guard of a raise / selector of the errors= mode of "
    "bytes.decode); the effect of any other new call-time read is reported, not proven harmful",
]

FLAG = "strict_mode"
EXC_MOD = "odxtools.exceptions"


def _resolve_module(prog: Program, mod: Module, chain: List[str]) -> Optional[str]:
    """Dotted module name an attribute chain prefix refers to, if any."""
    if not chain:
        return None
    head = chain[0]
    if head not in mod.imports:
        return None
    src, attr = mod.imports[head]
    cur = src if attr is None else f"{src}.{attr}"
    if attr is None and len(chain) > 1 and src == chain[0]:
        # ``import odxtools.exceptions`` binds ``odxtools``
        cur = src
    for part in chain[1:]:
        cur = f"{cur}.{part}"
    return cur


def is_flag_expr(prog: Program, mod: Module, node: ast.AST, local_names: set) -> bool:
    if isinstance(node, ast.Name) and node.id == FLAG:
        if node.id in local_names:
            return False
        if mod.name == EXC_MOD:
            return True
        if FLAG in mod.imports and mod.imports[FLAG] == (EXC_MOD, FLAG):
            return True
        return False
    if isinstance(node, ast.Name) and node.id in mod.imports and node.id not in local_names:
        src, attr = mod.imports[node.id]
        return src == EXC_MOD and attr == FLAG
    if isinstance(node, ast.Attribute) and node.attr == FLAG:
        ch = attr_chain(node.value)
        if ch is None:
            return False
        m = _resolve_module(prog, mod, ch)
        return m == EXC_MOD or (m is None and ch[-1] == "exceptions")
    if isinstance(node, ast.Call) and call_name(node) == "getattr" and len(node.args) >= 2:
        a = node.args[1]
        if isinstance(a, ast.Constant) and a.value == FLAG:
            ch = attr_chain(node.args[0])
            if ch is not None:
                m = _resolve_module(prog, mod, ch)
                return m == EXC_MOD or ch[-1] == "exceptions"
    return False


def _eval_bool(test: ast.AST, env) -> Optional[bool]:
    """Evaluate a guard built from names/not/and/or/is/== over an env; None if unknown."""
    if isinstance(test, ast.Constant):
        return bool(test.value)
    if isinstance(test, ast.Name) or isinstance(test, ast.Attribute):
        return env(test)
    if isinstance(test, ast.UnaryOp) and isinstance(test.op, ast.Not):
        v = _eval_bool(test.operand, env)
        return None if v is None else not v
    if isinstance(test, ast.BoolOp):
        vals = [_eval_bool(v, env) for v in test.values]
        if isinstance(test.op, ast.Or):
            if any(v is True for v in vals):
                return True
            if all(v is False for v in vals):
                return False
            return None
        if any(v is False for v in vals):
            return False
        if all(v is True for v in vals):
            return True
        return None
    if isinstance(test, ast.Compare) and len(test.ops) == 1:
        l = _eval_bool(test.left, env)
        r = test.comparators[0]
        if l is not None and isinstance(r, ast.Constant) and isinstance(r.value, bool):
            if isinstance(test.ops[0], (ast.Is, ast.Eq)):
                return l == r.value
            if isinstance(test.ops[0], (ast.IsNot, ast.NotEq)):
                return l != r.value
    return None


def _fn_locals(fn: ast.AST) -> set:
    from ..cfg import local_names
    a = fn.args  # type: ignore[attr-defined]
    names = {x.arg for x in a.posonlyargs + a.args + a.kwonlyargs}
    if a.vararg:
        names.add(a.vararg.arg)
    if a.kwarg:
        names.add(a.kwarg.arg)
    glob = set()
    for x in walk_no_nested(fn):
        if isinstance(x, ast.Global):
            glob |= set(x.names)
    return (names | local_names(fn)) - glob


def check(prog: Program, run: Run) -> None:
    run.rule("C17.R1", "no module binds or caches odxtools.exceptions.strict_mode outside a "
             "call-time read (no `from .exceptions import strict_mode`, no module/class-level "
             "or default-argument read, no copy into an attribute or global)", floor=100)
    run.rule("C17.R2", "odxraise reads the module global inside its body and raises exactly "
             "when it is true; odxassert/odxrequire only go through odxraise", floor=3)
    run.rule("C17.R3", "every writer of the flag other than its initialiser saves the old "
             "value first and restores it in a finally clause", floor=1)
    run.rule("C17.R5", "exception classes that exist to steer dispatch (caught by name to try the "
             "next alternative, e.g. DecodeMismatch) are raised unconditionally, never through "
             "odxraise", floor=1)
    run.rule("C17.R4", "every call-time read only guards a raise (or selects the errors= mode "
             "of bytes.decode): code outside the error path does not depend on the mode",
             floor=1)
    run.rule("C17.R6", "no function that can report a problem through odxraise is memoised",
             floor=1)
    run.rule("C17.R7", "the non-strict continuation of an odxraise in a use-time method of a "
             "database class does not modify the object", floor=20)
    _check_memo_and_fallbacks(prog, run)
    run.rule("C17.R8", "what the non-strict continuation of a reported problem hands on does not "
             "crash by construction: a codec name that may be None is tested before "
             "bytes.decode / str.encode, and a placeholder object built after an odxraise "
             "passes no None into a __post_init__ that dereferences it", floor=4)
    _check_continuations(prog, run)
    # the truncation guard is what callers probe with (next alternative, end-marker search):
    # it has to raise unconditionally, a mode-dependent odxraise changes valid results
    from . import c05
    from .common import run_as
    run_as(run, "C05.R2", "C17.R5", lambda r: c05._truncation(prog, r))
    # the constant-prefix filter in front of the candidates does not depend on the mode; what it
    # does not cover is rejected by an odxraise of the parameter (PHYS-CONST), i.e. only in
    # strict mode: the filter has to cover every constant parameter kind (shared with C06.R4)
    from . import c06
    run_as(run, "C06.R4", "C17.R5", lambda r: c06._const_prefix(prog, r))
    # the command line switch is registered once, on the top-level parser: argparse copies the
    # defaults of a sub-parser over what the top-level parser has parsed
    regs = []
    for fcli in prog.iter_functions():
        if not fcli.module.rel.startswith("odxtools/cli/"):
            continue
        for x in walk_no_nested(fcli.node):
            if isinstance(x, ast.Call) and call_name(x) == "add_argument" and any(
                    isinstance(a_, ast.Constant) and a_.value == "--no-strict" for a_ in x.args):
                regs.append((fcli, x))
    if len(regs) == 1 and regs[0][0].module.rel.endswith("cli/main.py"):
        run.ok("C17.R3", "cli", "--no-strict is registered once, on the top-level parser",
               f"{regs[0][0].module.rel}:{regs[0][1].lineno}")
    else:
        for fcli, x in regs:
            if not fcli.module.rel.endswith("cli/main.py"):
                run.violation("C17.R3", f"{fcli.module.rel}:{fcli.qual}", "switch-registered-twice",
                              "`--no-strict` is registered on a sub-command parser as well: its "
                              "default (False) is copied over the value the top-level parser "
                              "has parsed, so `odxtools --no-strict <tool>` runs in strict mode",
                              f"{fcli.module.rel}:{x.lineno}", "--no-strict")
        if not regs:
            raise AnalysisError("the --no-strict switch is not registered anywhere in the CLI")

    try:
        extra = Program(prog.repo, extra_dirs=("examples",))
        mods = list(extra.modules.values())
        p2 = extra
    except AnalysisError:
        mods = list(prog.modules.values())
        p2 = prog

    exc = p2.module(EXC_MOD)
    # the flag must exist as a module-level assignment
    init = [s for s in exc.tree.body if isinstance(s, (ast.Assign, ast.AnnAssign)) and any(
        isinstance(t, ast.Name) and t.id == FLAG
        for t in (s.targets if isinstance(s, ast.Assign) else [s.target]))]
    if not init:
        raise AnalysisError("odxtools.exceptions no longer defines a module-level strict_mode")

    n_mod = 0
    reads: List[Tuple[Module, Optional[FuncInfo], ast.AST, ast.AST]] = []
    for mod in mods:
        n_mod += 1
        # ---- R1a: from-imports of the flag
        bad_import = False
        for node in ast.walk(mod.tree):
            if isinstance(node, ast.ImportFrom):
                for al in node.names:
                    if al.name == FLAG:
                        src = p2._resolve_from(mod, node.level, node.module)
                        if src == EXC_MOD or src.endswith(".exceptions") or src == "odxtools":
                            bad_import = True
                            run.violation(
                                "C17.R1", mod.rel, "import-time-binding",
                                f"`{stmt_key(node)}` copies the flag's value when {mod.name} is "
                                "imported; later switches of the mode are not seen through "
                                f"`{al.asname or al.name}`", f"{mod.rel}:{node.lineno}",
                                stmt_key(node))
        # ---- R1b: module-level / class-level / default / decorator reads
        fn_nodes = set()
        for f in p2.iter_functions():
            if f.module is mod:
                fn_nodes.add(id(f.node))

        def scan_import_time(node: ast.AST, where: str) -> None:
            nonlocal bad_import
            for x in ast.walk(node):
                if is_flag_expr(p2, mod, x, set()) and isinstance(getattr(x, "ctx", ast.Load()),
                                                                  ast.Load):
                    bad_import = True
                    run.violation(
                        "C17.R1", f"{mod.rel}:{where}", "import-time-read",
                        f"`{ast.unparse(x)}` is evaluated when the module is imported "
                        f"({where}); the value is frozen", f"{mod.rel}:{x.lineno}",
                        stmt_key(node) if isinstance(node, ast.stmt) else ast.unparse(node))

        def walk_scope(body: List[ast.stmt], where: str) -> None:
            for st in body:
                if isinstance(st, (ast.FunctionDef, ast.AsyncFunctionDef)):
                    for d in st.decorator_list:
                        scan_import_time(d, f"decorator of {st.name}")
                    for d in list(st.args.defaults) + [k for k in st.args.kw_defaults if k]:
                        scan_import_time(d, f"default argument of {st.name}")
                elif isinstance(st, ast.ClassDef):
                    walk_scope(st.body, f"class body of {st.name}")
                elif isinstance(st, (ast.If, ast.Try, ast.With, ast.For, ast.While)):
                    for fld in ("test", "iter"):
                        if hasattr(st, fld):
                            scan_import_time(getattr(st, fld), where)
                    for fld in ("body", "orelse", "finalbody"):
                        walk_scope(getattr(st, fld, []) or [], where)
                    for h in getattr(st, "handlers", []):
                        walk_scope(h.body, where)
                else:
                    if mod.name == EXC_MOD and st in init:
                        continue
                    # module-level writes are handled by R3
                    if isinstance(st, ast.Assign) and any(
                            is_flag_expr(p2, mod, t, set()) for t in st.targets):
                        scan_import_time(st.value, where)
                        continue
                    scan_import_time(st, where)

        walk_scope(mod.tree.body, "module level")
        # nested function defaults inside functions are evaluated at call time of the outer fn
        if not bad_import:
            run.ok("C17.R1", mod.rel, "no import-time binding of strict_mode")

    # ---- function bodies: call-time reads and writes
    writers: List[Tuple[Module, FuncInfo, ast.stmt]] = []
    for f in p2.iter_functions():
        mod = f.module
        locs = _fn_locals(f.node)
        for st in walk_no_nested(f.node):
            if not isinstance(st, ast.stmt) or st is f.node:
                continue
            if isinstance(st, (ast.Assign, ast.AugAssign, ast.AnnAssign)):
                tgts = st.targets if isinstance(st, ast.Assign) else [st.target]
                if any(is_flag_expr(p2, mod, t, locs) for t in tgts):
                    writers.append((mod, f, st))
                    continue
        for x in walk_no_nested(f.node):
            if isinstance(x, (ast.Name, ast.Attribute, ast.Call)) and is_flag_expr(
                    p2, mod, x, locs):
                if isinstance(getattr(x, "ctx", ast.Load()), ast.Store):
                    continue
                reads.append((mod, f, x, _enclosing_stmt(f.node, x)))

    # module-level writers (outside the initialiser)
    for mod in mods:
        for st in mod.tree.body:
            if isinstance(st, ast.Assign) and any(is_flag_expr(p2, mod, t, set())
                                                  for t in st.targets):
                if mod.name == EXC_MOD and st in init:
                    run.ok("C17.R3", f"{mod.rel}:initialiser", "the flag's initialiser",
                           f"{mod.rel}:{st.lineno}")
                else:
                    run.violation("C17.R3", f"{mod.rel}:module level", "unpaired-write",
                                  "the flag is overwritten at import time and never restored",
                                  f"{mod.rel}:{st.lineno}", stmt_key(st))

    _check_signals(p2, run)
    _check_writers(p2, run, writers)
    _check_odxraise(p2, run, exc)
    _check_reads(p2, run, reads, writers)
    run.info("modules_scanned", n_mod)
    run.info("call_time_reads", [f"{m.rel}:{f.qual if f else '-'}: {stmt_key(s)}"
                                 for m, f, x, s in reads])
    run.info("writers", [f"{m.rel}:{f.qual}: {stmt_key(s)}" for m, f, s in writers])


# exception classes whose only purpose is to steer dispatch: a handler somewhere in the package
# catches exactly this class to try the next alternative.  Routing them through odxraise would
# switch the dispatch off in non-strict mode and change the result of a *valid* operation.
MEMO_DECORATORS = ("lru_cache", "cache", "cached_property")
LOAD_PHASE = ("from_et", "_resolve_odxlinks", "_resolve_snrefs", "_finalize_init", "__post_init__",
              "_build_odxlinks", "__init__")


def _reaches_odxraise(prog: Program, cg, f: FuncInfo, seen=None, depth: int = 0) -> Optional[str]:
    """Name of an odxraise / odxassert / odxrequire call reachable from f (class-hierarchy call
    graph, depth-bounded), else None."""
    seen = seen if seen is not None else set()
    if f.key in seen or depth > 6:
        return None
    seen.add(f.key)
    for x in walk_no_nested(f.node):
        if isinstance(x, ast.Call) and call_name(x) in ("odxraise", "odxassert", "odxrequire"):
            return f"{call_name(x)} in {f.qual}"
    for site in cg.sites(f):
        if site.fallback:
            continue
        for g in site.callees:
            r = _reaches_odxraise(prog, cg, g, seen, depth + 1)
            if r:
                return r
    return None


def _check_memo_and_fallbacks(prog: Program, run: Run) -> None:
    from ..callgraph import CallGraph
    cg = CallGraph(prog)
    # ---- R6: nothing that may report a problem is memoised
    R = "C17.R6"
    n = 0
    for f in prog.iter_functions():
        if not f.module.rel.startswith("odxtools/"):
            continue
        n += 1
        memo = [d for d in f.decorators if d.split(".")[-1].split("(")[0] in MEMO_DECORATORS]
        if not memo:
            continue
        # only the function's own body: a fall-back value computed right here is what gets
        # cached. (Transitive reachability was tried and dropped: DiagLayer._prefix_tree reaches
        # an odxraise four calls deep, but the same problem is reported again by the decoder
        # itself, so strict mode still restores the error -- repro/c17_prefix_tree.py.)
        via = next((f"{call_name(x)} in {f.qual}" for x in walk_no_nested(f.node)
                    if isinstance(x, ast.Call) and call_name(x) in ("odxraise", "odxassert",
                                                                    "odxrequire")), None)
        if via:
            run.violation(R, f.qual, "memoised-error-path",
                          f"`@{memo[0]}` caches the result of {f.qual}, which reports problems "
                          f"through {via}: the value returned by the non-strict fall-back is "
                          "cached, so after one lenient call the error is never reported again "
                          "for these arguments, not even in strict mode", f.loc)
        else:
            run.ok(R, f.qual, f"`@{memo[0]}`: no odxraise reachable from the memoised function",
                   f.loc)
    run.ok(R, "package", f"{n} functions scanned for memoisation decorators "
           f"({', '.join(MEMO_DECORATORS)})", "odxtools/")
    # ---- R7: the lenient continuation of an odxraise does not change the database objects
    R = "C17.R7"
    MUT = ("append", "extend", "update", "add", "setdefault", "insert", "pop", "remove", "clear")
    parsed = {c.name for c in {id(c): c for c in prog.classes_by_mod.values()}.values()
              if any("from_et" in m for m in c.methods)}

    def is_db_class(ci) -> bool:
        return any(b.name in parsed for b in prog.mro(ci))

    def mutations(stmts):
        out = []
        for st in stmts:
            for x in ast.walk(st):
                if isinstance(x, (ast.Assign, ast.AugAssign, ast.AnnAssign)):
                    tg = x.targets if isinstance(x, ast.Assign) else [x.target]
                    for t in tg:
                        b = t.value if isinstance(t, ast.Subscript) else t
                        if isinstance(b, ast.Attribute) and isinstance(b.value, ast.Name) and \
                                b.value.id == "self":
                            out.append(x)
                if isinstance(x, ast.Call) and isinstance(x.func, ast.Attribute) and \
                        x.func.attr in MUT and isinstance(x.func.value, ast.Attribute) and \
                        isinstance(x.func.value.value, ast.Name) and \
                        x.func.value.value.id == "self":
                    out.append(x)
        return out
    sites = 0
    for f in prog.iter_functions():
        if f.cls is None or not f.module.rel.startswith("odxtools/") or not is_db_class(f.cls):
            continue
        if any(f.name == l or f.name.startswith(l) for l in LOAD_PHASE):
            continue

        def scan(body):
            nonlocal sites
            for i, st in enumerate(body):
                if isinstance(st, ast.Expr) and isinstance(st.value, ast.Call) and \
                        call_name(st.value) == "odxraise":
                    sites += 1
                    ms = mutations(body[i + 1:])
                    if ms:
                        m = ms[0]
                        run.violation(R, f.qual, "fallback-mutates-" + " ".join(
                            ast.unparse(m).split())[:40],
                                      f"`{' '.join(ast.unparse(m).split())[:80]}` in the "
                                      "non-strict continuation of an odxraise changes the "
                                      "database object: after one lenient call the condition "
                                      "that raised is gone, so re-enabling strict mode does not "
                                      "restore the error", f"{f.module.rel}:{m.lineno}",
                                      stmt_key(st))
                    else:
                        run.ok(R, f.qual, "the lenient continuation leaves the object unchanged",
                               f"{f.module.rel}:{st.lineno}")
                for fld in ("body", "orelse", "finalbody"):
                    sub = getattr(st, fld, None)
                    if isinstance(sub, list) and sub and isinstance(sub[0], ast.stmt):
                        scan(sub)
                if isinstance(st, ast.Try):
                    for h in st.handlers:
                        scan(h.body)
        scan(f.node.body)
    run.info("odxraise_fallbacks_in_database_classes", sites)


def _is_none_expr(e: ast.AST) -> bool:
    return isinstance(e, ast.Constant) and e.value is None or (
        isinstance(e, ast.Call) and call_name(e) == "cast" and any(
            isinstance(a, ast.Constant) and a.value is None for a in e.args))


def _check_continuations(prog: Program, run: Run) -> None:
    from ..cfg import CFG
    from .isotp import _none_guarded, _stmt_of
    R = "C17.R8"
    # (a) codec names: `x.decode(v, ...)` / `x.encode(v, ...)` where v is the result of a function
    #     that may return None (annotated Optional, or with a `return None`)
    may_none = set()
    declared = set()
    for f in prog.iter_functions():
        ann = ast.unparse(f.node.returns) if f.node.returns is not None else ""
        if "str" not in ann:
            continue
        if ann.startswith("Optional"):
            declared.add(f.name)
        fcfg = CFG(f.node)
        live = fcfg.reachable(0)
        for nd in fcfg.nodes:
            if nd.id in live and nd.kind == "stmt" and isinstance(nd.stmt, ast.Return) and (
                    nd.stmt.value is None or _is_none_expr(nd.stmt.value)):
                may_none.add(f.name)  # a `return None` that control can reach
            if nd.id in live and nd.kind == "stmt" and 1 in fcfg.succ[nd.id] and not isinstance(
                    nd.stmt, (ast.Return, ast.Raise)):
                may_none.add(f.name)  # falls off the end
    n = 0
    for g in prog.iter_functions():
        if not g.module.rel.startswith("odxtools/"):
            continue
        src = {}
        for x in walk_no_nested(g.node):
            if isinstance(x, ast.Assign) and isinstance(x.value, ast.Call) and call_name(
                    x.value) in may_none | declared and isinstance(x.targets[0], ast.Name):
                src[x.targets[0].id] = call_name(x.value)
        if not src:
            continue
        cfg = CFG(g.node)
        for x in walk_no_nested(g.node):
            if isinstance(x, ast.Call) and isinstance(x.func, ast.Attribute) and x.func.attr in (
                    "decode", "encode") and x.args and isinstance(x.args[0], ast.Name) and \
                    x.args[0].id in src:
                v = x.args[0].id
                n += 1
                st = _stmt_of(g.node, x)
                node = cfg.nodes[cfg.node_of(st)]
                if src[v] not in may_none:
                    run.ok(R, g.qual, f"`{ast.unparse(x)[:50]}`: no `return None` of {src[v]} "
                           "is reachable", f"{g.module.rel}:{x.lineno}")
                elif _none_guarded(cfg, node, st, x, v):
                    run.ok(R, g.qual, f"`{ast.unparse(x)[:50]}`: {v} (from {src[v]}) is tested "
                           "for None first", f"{g.module.rel}:{x.lineno}")
                else:
                    run.violation(R, g.qual, f"codec-may-be-none-{v}",
                                  f"`{ast.unparse(x)[:60]}`: {v} comes from {src[v]}(), which "
                                  "returns None after reporting an illegal encoding in "
                                  "non-strict mode; .decode/.encode(None) raises TypeError, so "
                                  "the problem is not downgraded but replaced by a foreign "
                                  "exception", f"{g.module.rel}:{x.lineno}", stmt_key(st))
    # (b) placeholder objects built after an odxraise
    m = 0
    for g in prog.iter_functions():
        if not g.module.rel.startswith("odxtools/"):
            continue
        raises = [x for x in walk_no_nested(g.node) if isinstance(x, ast.Expr) and isinstance(
            x.value, ast.Call) and call_name(x.value) in ("odxraise", "odxrequire", "odxassert")]
        if not raises:
            continue
        cfg = None
        for x in walk_no_nested(g.node):
            if not (isinstance(x, ast.Call) and isinstance(x.func, ast.Name) and
                    prog.has_cls(x.func.id)):
                continue
            none_fields = [k.arg for k in x.keywords if k.arg and _is_none_expr(k.value)]
            if not none_fields:
                continue
            cfg = cfg or CFG(g.node)
            st = _stmt_of(g.node, x)
            sn = cfg.node_of(st)
            if not any(sn in cfg.reachable(cfg.node_of(r)) for r in raises):
                continue
            m += 1
            ci = prog.cls(x.func.id)
            bad = None
            for c in prog.mro(ci):
                pi = c.methods.get("__post_init__")
                if pi is None:
                    continue
                pcfg = CFG(pi.node)
                for y in walk_no_nested(pi.node):
                    base = None
                    if isinstance(y, ast.Attribute) and isinstance(y.value, ast.Attribute) and \
                            isinstance(y.value.value, ast.Name) and y.value.value.id == "self" \
                            and y.value.attr in none_fields:
                        base = y.value
                    if isinstance(y, ast.Subscript) and isinstance(y.value, ast.Attribute) and \
                            isinstance(y.value.value, ast.Name) and y.value.value.id == "self" \
                            and y.value.attr in none_fields:
                        base = y.value
                    if base is None:
                        continue
                    pst = _stmt_of(pi.node, y)
                    # a guard on self.<field> (is not None / truthiness) in front of the use
                    guarded = False
                    for t, pol in pcfg.branch_conditions(pcfg.node_of(pst)):
                        if ast.unparse(base) in ast.unparse(t):
                            guarded = True
                    for b in ast.walk(pst):
                        if isinstance(b, (ast.BoolOp, ast.IfExp)) and ast.unparse(base) in \
                                ast.unparse(b.values[0] if isinstance(b, ast.BoolOp) else b.test):
                            guarded = True
                    if not guarded:
                        bad = (c, pi, y, base)
            if bad:
                c, pi, y, base = bad
                run.violation(R, g.qual, f"placeholder-{x.func.id}-{base.attr}",
                              f"after reporting the problem, {g.qual} continues with "
                              f"`{x.func.id}({base.attr}=None, ...)`, but {c.name}.__post_init__ "
                              f"evaluates `{ast.unparse(y)}`: AttributeError/TypeError in "
                              "non-strict mode instead of the downgraded result",
                              f"{pi.module.rel}:{y.lineno}", stmt_key(_stmt_of(pi.node, y)))
            else:
                run.ok(R, g.qual, f"`{x.func.id}(...)` built after a reported problem passes "
                       f"None for {none_fields}; no __post_init__ dereferences them",
                       f"{g.module.rel}:{x.lineno}")
    # (c) the codec-error handlers are siblings (atomic encoder, atomic decoder, MIN-MAX-LENGTH
    #     encoder): all of them report through odxraise and continue with errors='replace'; one
    #     that raises on its own ignores the mode its siblings honour
    k = 0
    for g in prog.iter_functions():
        if not g.module.rel.startswith("odxtools/"):
            continue
        for t in walk_no_nested(g.node):
            if not isinstance(t, ast.Try):
                continue
            for h in t.handlers:
                tn = ast.unparse(h.type) if h.type is not None else ""
                if "UnicodeEncodeError" not in tn and "UnicodeDecodeError" not in tn:
                    continue
                k += 1
                via = any(isinstance(y, ast.Call) and call_name(y) == "odxraise"
                          for b in h.body for y in ast.walk(b))
                hard = [y for b in h.body for y in ast.walk(b) if isinstance(y, ast.Raise)]
                if via and not hard:
                    run.ok(R, g.qual, f"`except {tn}` reports through odxraise and continues",
                           f"{g.module.rel}:{h.lineno}")
                else:
                    run.violation(R, g.qual, "codec-error-not-downgraded",
                                  f"`except {tn}` " + (f"raises on its own (`{stmt_key(hard[0])}`)"
                                                      if hard else "does not report through "
                                                      "odxraise") +
                                  ": the sibling handlers of the atomic encoder / decoder "
                                  "downgrade the same problem in non-strict mode, this one "
                                  "ignores the mode", f"{g.module.rel}:{h.lineno}",
                                  stmt_key(hard[0]) if hard else tn)
    if n < 3 or m < 1 or k < 3:
        raise AnalysisError(f"continuations: {n} codec uses, {m} placeholder constructions, "
                            f"{k} codec-error handlers")


def _check_signals(prog: Program, run: Run) -> None:
    exc_classes = {c.name for c in prog.subclasses("OdxError")} if prog.has_cls("OdxError") \
        else set()
    caught_exact = {}
    for f in prog.iter_functions():
        for x in walk_no_nested(f.node):
            if isinstance(x, ast.ExceptHandler) and x.type is not None:
                names = [x.type] if not isinstance(x.type, ast.Tuple) else list(x.type.elts)
                for n in names:
                    nm = ast.unparse(n).split(".")[-1]
                    if nm in exc_classes:
                        caught_exact.setdefault(nm, []).append(f"{f.module.rel}:{f.qual}")
    # a "signal" is a specialised error class: it derives from another error class of the
    # library that is itself caught by the candidate loops (DecodeMismatch <: DecodeError)
    signals = set()
    for nm in exc_classes:
        ci = prog.cls(nm)
        supers = [c.name for c in prog.mro(ci)[1:] if c.name in exc_classes and
                  c.name != "OdxError"]
        if supers and any(sup in caught_exact for sup in supers):
            signals.add(nm)
            caught_exact.setdefault(nm, [])
            for sup in supers:
                caught_exact[nm] += caught_exact.get(sup, [])
    if "DecodeMismatch" not in signals:
        raise AnalysisError("DecodeMismatch is no longer a specialisation of a caught error "
                            "class; C17.R5 has lost its anchor")
    n = 0
    for f in prog.iter_functions():
        for x in walk_no_nested(f.node):
            if isinstance(x, ast.Call) and call_name(x) in ("odxraise", "odxassert"):
                args = list(x.args) + [k.value for k in x.keywords]
                for a in args:
                    nm = ast.unparse(a).split(".")[-1]
                    if nm in signals:
                        n += 1
                        run.violation("C17.R5", f"{f.module.rel}:{f.qual}", f"signal-{nm}-via-odxraise",
                                      f"`{call_name(x)}(..., {nm})`: {nm} is a dispatch signal caught "
                                      f"in {sorted(set(caught_exact[nm]))}; in non-strict mode it is "
                                      "only logged, so the alternative is accepted instead of "
                                      "skipped and a valid decode returns a different result",
                                      f"{f.module.rel}:{x.lineno}", stmt_key(_enclosing_stmt(f.node, x)))
            if isinstance(x, ast.Raise) and x.exc is not None:
                e = x.exc.func if isinstance(x.exc, ast.Call) else x.exc
                nm = ast.unparse(e).split(".")[-1]
                if nm in signals:
                    n += 1
                    run.ok("C17.R5", f.qual, f"{nm} is raised unconditionally",
                           f"{f.module.rel}:{x.lineno}")
    run.info("dispatch_signals", {k: sorted(set(caught_exact[k])) for k in signals})


def _enclosing_stmt(fn: ast.AST, x: ast.AST) -> ast.stmt:
    best: Optional[ast.stmt] = None
    for st in walk_no_nested(fn):
        if isinstance(st, ast.stmt) and st is not fn:
            for y in _own_exprs(st):
                for z in ast.walk(y):
                    if z is x:
                        best = st
    if best is None:
        raise AnalysisError("read without enclosing statement")
    return best


def _own_exprs(st: ast.stmt) -> List[ast.AST]:
    """Expressions evaluated by the statement itself (not by nested statements)."""
    out: List[ast.AST] = []
    for name, val in ast.iter_fields(st):
        if name in ("body", "orelse", "finalbody", "handlers"):
            continue
        if isinstance(val, ast.AST):
            out.append(val)
        elif isinstance(val, list):
            out += [v for v in val if isinstance(v, ast.AST)]
    return out


def _check_writers(prog: Program, run: Run, writers) -> None:
    by_fn = {}
    for mod, f, st in writers:
        by_fn.setdefault(f.key, (mod, f, []))[2].append(st)
    for key, (mod, f, sts) in by_fn.items():
        locs = _fn_locals(f.node)
        # saved locals: name = <flag>
        saved = set()
        for st in walk_no_nested(f.node):
            if isinstance(st, ast.Assign) and len(st.targets) == 1 and isinstance(
                    st.targets[0], ast.Name) and is_flag_expr(prog, mod, st.value, locs):
                saved.add(st.targets[0].id)
        restores = []
        for t in walk_no_nested(f.node):
            if isinstance(t, ast.Try) and t.finalbody:
                for st in t.finalbody:
                    if st in sts and isinstance(st, ast.Assign) and isinstance(
                            st.value, ast.Name) and st.value.id in saved:
                        restores.append((t, st))
        cfg = CFG(f.node)
        for st in sts:
            if any(st is r for _t, r in restores):
                continue
            ok = False
            for t, r in restores:
                # the write must be the statement right before the try (or inside it) and
                # the saved local must be assigned before the write
                n_w = cfg.node_of(st)
                n_t = cfg.node_of(t)
                save_nodes = [cfg.node_of(s) for s in walk_no_nested(f.node)
                              if isinstance(s, ast.Assign) and len(s.targets) == 1 and
                              isinstance(s.targets[0], ast.Name) and
                              s.targets[0].id == r.value.id and  # type: ignore[attr-defined]
                              is_flag_expr(prog, mod, s.value, locs)]
                inside = any(st is y for y in ast.walk(t))
                before = cfg.succ[n_w] == {n_t}
                if (inside or before) and any(cfg.dominates(s, n_w) for s in save_nodes):
                    ok = True
            if ok:
                run.ok("C17.R3", f.qual, f"write `{stmt_key(st)}` is paired with a restore of the "
                       "saved value in `finally`", f"{mod.rel}:{st.lineno}")
            else:
                run.violation("C17.R3", f"{mod.rel}:{f.qual}", "unpaired-write",
                              "the flag is written without saving the old value first and "
                              "restoring it in a finally clause: the mode leaks to later callers",
                              f"{mod.rel}:{st.lineno}", stmt_key(st))


def _check_odxraise(prog: Program, run: Run, exc: Module) -> None:
    f = prog.find_func(f"{EXC_MOD}:odxraise")
    if f is None:
        raise AnalysisError("odxtools.exceptions.odxraise not found")
    locs = _fn_locals(f.node)
    if FLAG in locs:
        run.violation("C17.R2", "odxraise", "flag-shadowed",
                      "odxraise has a parameter or local named strict_mode: it no longer reads "
                      "the module global at call time", f.loc)
        return
    # the flag is an ordinary truth value (`strict_mode = 1` enables strict mode like `True`):
    # it is tested by truthiness, not compared with True / False
    for x in walk_no_nested(f.node):
        if isinstance(x, ast.Compare) and any(is_flag_expr(prog, exc, y, locs)
                                              for y in [x.left] + x.comparators) and any(
                isinstance(y, ast.Constant) and isinstance(y.value, bool)
                for y in [x.left] + x.comparators):
            run.violation("C17.R2", "odxraise", "flag-compared-with-constant",
                          f"`{ast.unparse(x)}`: the switch is compared with a boolean constant; "
                          "a truthy value that is not the object True (1, a non-empty string "
                          "from a configuration) re-enables strict mode for `if strict_mode` "
                          "everywhere else but not here: the error is not restored",
                          f"{f.module.rel}:{x.lineno}", ast.unparse(x))
    cfg = CFG(f.node)
    raises = [n for n in cfg.nodes if isinstance(n.stmt, ast.Raise) and n.kind == "stmt"]
    if not raises:
        run.violation("C17.R2", "odxraise", "never-raises",
                      "odxraise contains no raise statement", f.loc)
        return

    def env_for(flag_val: bool):
        def env(node: ast.AST) -> Optional[bool]:
            if is_flag_expr(prog, exc, node, locs):
                return flag_val
            if isinstance(node, ast.Name) and node.id == "TYPE_CHECKING":
                return False
            return None
        return env

    def feasible(flag_val: bool) -> set:
        """Nodes reachable when the flag has the given value (guards that only
        mention the flag / TYPE_CHECKING are evaluated, everything else is both ways)."""
        seen = set()
        stack = [0]
        while stack:
            n = stack.pop()
            if n in seen:
                continue
            seen.add(n)
            node = cfg.nodes[n]
            v = None
            if node.kind in ("if", "while"):
                v = _eval_bool(node.expr, env_for(flag_val))
            for s in cfg.succ[n]:
                lab = cfg.label.get((n, s))
                if v is True and lab == "F":
                    continue
                if v is False and lab == "T":
                    continue
                stack.append(s)
        return seen

    strict = feasible(True)
    lenient = feasible(False)
    ok = True
    if EXIT in strict:
        ok = False
        run.violation("C17.R2", "odxraise", "strict-returns",
                      "with strict_mode true there is a path through odxraise that returns "
                      "without raising", f.loc)
    if RAISE in lenient or any(r.id in lenient for r in raises):
        ok = False
        run.violation("C17.R2", "odxraise", "lenient-raises",
                      "with strict_mode false a raise statement of odxraise is still reachable",
                      f.loc)
    # every raise raises the caller-supplied type
    for r in raises:
        e = r.stmt.exc  # type: ignore[attr-defined]

        def arms(x):
            if isinstance(x, ast.IfExp):
                return arms(x.body) + arms(x.orelse)
            return [x]
        if e is None or not all(isinstance(a, ast.Call) and isinstance(a.func, ast.Name) and
                                a.func.id in f.params() for a in arms(e)):
            ok = False
            run.violation("C17.R2", "odxraise", "raises-other-type",
                          f"`{stmt_key(r.stmt)}` does not raise the error type handed in by the "
                          "caller", f"{exc.rel}:{r.stmt.lineno}", stmt_key(r.stmt))
    # no default argument bound to the flag (already covered by R1b) -> fine
    if ok:
        run.ok("C17.R2", "odxraise", "raises iff the module global is true at call time", f.loc)

    for name, cond_desc in (("odxassert", "not condition"), ("odxrequire", "obj is None")):
        g = prog.find_func(f"{EXC_MOD}:{name}")
        if g is None:
            raise AnalysisError(f"odxtools.exceptions.{name} not found")
        good = True
        calls = [x for x in walk_no_nested(g.node) if isinstance(x, ast.Call) and
                 call_name(x) == "odxraise"]
        if any(isinstance(x, ast.Raise) for x in walk_no_nested(g.node)):
            good = False
            run.violation("C17.R2", name, "raises-directly",
                          f"{name} raises on its own instead of going through odxraise, so the "
                          "mode switch does not reach it", g.loc)
        if any(is_flag_expr(prog, exc, x, _fn_locals(g.node)) for x in walk_no_nested(g.node)):
            good = False
            run.violation("C17.R2", name, "reads-flag",
                          f"{name} consults the flag itself instead of delegating to odxraise",
                          g.loc)
        if not calls:
            good = False
            run.violation("C17.R2", name, "no-odxraise",
                          f"{name} never calls odxraise: failures are not reported in strict "
                          "mode", g.loc)
        else:
            gcfg = CFG(g.node)
            p = g.params()[0]
            for c in calls:
                st = _enclosing_stmt(g.node, c)
                conds = gcfg.branch_conditions(gcfg.node_of(st))
                txt = [(ast.unparse(t), pol) for t, pol in conds]
                want = (f"not {p}", True) if name == "odxassert" else (f"{p} is None", True)
                alt = (p, False) if name == "odxassert" else (f"{p} is not None", False)
                if want not in txt and alt not in txt:
                    good = False
                    run.violation("C17.R2", name, "wrong-guard",
                                  f"odxraise is called under {txt!r}, expected `{want[0]}`", g.loc,
                                  stmt_key(st))
            # odxrequire returns its argument; odxassert passes message and type on
            if name == "odxassert":
                for c in calls:
                    args = [ast.unparse(a) for a in c.args] + [ast.unparse(k.value)
                                                                 for k in c.keywords]
                    if not set(g.params()[1:3]) <= set(args):
                        good = False
                        run.violation("C17.R2", name, "drops-error-type",
                                      "odxassert does not hand message and error_type to odxraise",
                                      g.loc)
        if good:
            run.ok("C17.R2", name, f"delegates to odxraise under `{cond_desc}`", g.loc)


# frozen after reading: reads that select a *value* rather than guard a raise
VALUE_READ_EXEMPT = {
    # function qual -> (role, reason)
    "DecodeState.extract_atomic_value": (
        "errors=",
        "selects bytes.decode(errors='strict'|'replace'): differs only on undecodable text, "
        "i.e. only where strict mode raises"),
}


def _check_reads(prog: Program, run: Run, reads, writers) -> None:
    writer_stmts = {id(s) for _m, _f, s in writers}
    for mod, f, x, st in reads:
        where = f"{mod.rel}:{f.qual}"
        if f.module.name == EXC_MOD and f.qual == "odxraise":
            run.ok("C17.R4", "odxraise", "the designated call-time reader",
                   f"{mod.rel}:{x.lineno}")
            continue
        # save for restore: `local = <flag>` in a writer function
        if isinstance(st, ast.Assign) and len(st.targets) == 1:
            t = st.targets[0]
            if isinstance(t, ast.Name) and st.value is x and any(
                    wf is f for _m, wf, _s in writers):
                run.ok("C17.R4", f.qual, "saves the flag for a later restore",
                       f"{mod.rel}:{st.lineno}")
                continue
            if isinstance(t, (ast.Attribute, ast.Subscript)) or (
                    isinstance(t, ast.Name) and t.id not in _fn_locals(f.node)):
                run.violation("C17.R1", where, "cached-copy",
                              f"`{stmt_key(st)}` stores the flag's current value in a longer-lived "
                              "place; later switches are not seen there",
                              f"{mod.rel}:{st.lineno}", stmt_key(st))
                continue
        # role of the read
        role = _read_role(f, x, st)
        if role == "guards-raise":
            run.ok("C17.R4", f.qual, f"read guards an error report only: `{stmt_key(st)}`",
                   f"{mod.rel}:{st.lineno}")
        elif role == "errors=" and VALUE_READ_EXEMPT.get(f.qual, ("", ""))[0] == "errors=":
            run.ok("C17.R4", f.qual, "read selects the errors= mode of bytes.decode at call time "
                   f"({VALUE_READ_EXEMPT[f.qual][1]})", f"{mod.rel}:{st.lineno}")
        else:
            run.violation("C17.R4", where, "mode-dependent-result",
                          f"`{stmt_key(st)}` makes ordinary (non-error) code depend on the "
                          "strict-mode flag: an operation that succeeds in strict mode may give a "
                          "different result in non-strict mode",
                          f"{mod.rel}:{st.lineno}", stmt_key(st))


def _read_role(f: FuncInfo, x: ast.AST, st: ast.stmt) -> str:
    # (a) the read is (part of) the test of an `if` whose flag-true branch ends in raise and
    #     whose other branch only logs / warns / passes
    if isinstance(st, ast.If) and any(y is x for y in ast.walk(st.test)):
        def only_reports(body: List[ast.stmt]) -> bool:
            for s in body:
                if isinstance(s, ast.Pass):
                    continue
                if isinstance(s, ast.Raise):
                    continue
                if isinstance(s, ast.Expr) and isinstance(s.value, ast.Call):
                    d = ast.unparse(s.value.func)
                    if d.split(".")[0] in ("logger", "logging", "warnings") or d in ("print",):
                        continue
                    if call_name(s.value) in ("odxraise", "warn", "warning", "error", "debug",
                                              "info"):
                        continue
                return False
            return True
        if only_reports(st.body) and only_reports(st.orelse):
            return "guards-raise"
        return "other"
    # (b) errors= keyword of a .decode() call, possibly through one local
    name = None
    if isinstance(st, ast.Assign) and len(st.targets) == 1 and isinstance(st.targets[0], ast.Name):
        if isinstance(st.value, ast.IfExp) and any(y is x for y in ast.walk(st.value.test)):
            vals = (st.value.body, st.value.orelse)
            if all(isinstance(v, ast.Constant) and isinstance(v.value, str) for v in vals):
                name = st.targets[0].id
    if name is not None:
        uses = [n for n in walk_no_nested(f.node) if isinstance(n, ast.Name) and n.id == name and
                isinstance(n.ctx, ast.Load)]
        ok = bool(uses)
        for u in uses:
            found = False
            for c in walk_no_nested(f.node):
                if isinstance(c, ast.Call) and call_name(c) == "decode":
                    for k in c.keywords:
                        if k.arg == "errors" and k.value is u:
                            found = True
                    if len(c.args) >= 2 and c.args[1] is u:
                        found = True
            ok = ok and found
        if ok:
            return "errors="
    for c in walk_no_nested(f.node):
        if isinstance(c, ast.Call) and call_name(c) == "decode":
            for k in c.keywords:
                if k.arg == "errors" and isinstance(k.value, ast.IfExp) and any(
                        y is x for y in ast.walk(k.value.test)):
                    return "errors="
    return "other"
