"""C10 — every reference resolves to the object it names, or loading fails."""
from __future__ import annotations

import ast
from typing import Dict, List, Optional, Set, Tuple

from ..absint import eval_test
from ..cfg import CFG, EXIT, symbolic_block_paths, symbolic_paths
from ..exprnorm import norm_test
from ..report import Run
from ..src import (AnalysisError, ClassInfo, FuncInfo, Program, call_name, stmt_key,
                   walk_no_nested)
from ..types import ann_type, classes_of, elem_type
from . import common

EXPLANATION = (
    "Whole-package structural rules over the reference machinery: (R1) OdxLinkDatabase.resolve "
    "searches the reference's fragments innermost first, returns the first hit and ends in an "
    "error; update(overwrite=False) uses setdefault; resolve_snref returns only after the "
    "uniqueness and type tests; (R2) the link database handed to DiagLayer._resolve_odxlinks is "
    "copied fragment by fragment before imported IDs are added without overwriting; (R3) every "
    "dataclass field that holds an ODXLINK or short-name reference is consumed by a resolve call "
    "of its own class (exemptions listed with reasons); (R4) for every class and every field "
    "whose type transitively holds IDs / references / SNREFs, the three phase methods "
    "(_build_odxlinks, _resolve_odxlinks, _resolve_snrefs) visit it, under agreeing guards; "
    "(R5) Database.refresh completes build -> resolve -> finalize -> snrefs in that order for "
    "all container kinds; (R6) SNREFs are resolved against the inherited view of the context "
    "layer, the DOP search list covers every DOP category, and retargeting recurses through all "
    "ancestors with the same context.")
ASSUMPTIONS = [
    "which object a reference binds to in a concrete database is not computed",
    "field types come from the dataclass annotations (Optional/List/NamedItemList/Union are "
    "unwrapped)",
]

PHASES = ("_build_odxlinks", "_resolve_odxlinks", "_resolve_snrefs")

# reference fields that are deliberately not resolved by their own class
REF_EXEMPT: Dict[Tuple[str, str], str] = {
    ("ComparamInstance", "protocol_snref"): "used as a filter key by get_comparam",
    ("ComparamInstance", "prot_stack_snref"): "used as a filter key only",
    ("DiagLayerRaw", "import_refs"): "resolved by DiagLayer._resolve_odxlinks (needs the layer)",
    ("EnvironmentDataDescription", "param_snref"): "resolved per message against the journal",
    ("EnvironmentDataDescription", "param_snpathref"): "resolved per message (unsupported)",
    ("MatchingParameter", "diag_comm_snref"): "resolved per candidate variant at match time",
    ("MatchingParameter", "out_param_if_snref"): "resolved per decoded response",
    ("MatchingParameter", "out_param_if_snpathref"): "resolved per decoded response",
    ("MatchingBaseVariantParameter", "diag_comm_snref"): "see MatchingParameter",
    ("MatchingBaseVariantParameter", "out_param_if_snref"): "see MatchingParameter",
    ("MatchingBaseVariantParameter", "out_param_if_snpathref"): "see MatchingParameter",
}
REF_EXEMPT_CLASSES = {
    "PosResponseSuppressible": "stores the names only; no accessor exposes a resolved object",
    "OdxLinkRef": "the reference type itself",
}

# (class, field, phase) triples that are not visited by design
PHASE_EXEMPT: Dict[Tuple[str, str, str], str] = {
    **{("DiagLayerContainer", f, "_resolve_snrefs"):
       "SNREFs of diagnostic layers are resolved by the layer's _finalize_init with the layer as "
       "context" for f in ("ecu_shared_datas", "protocols", "functional_groups", "base_variants",
                           "ecu_variants")},
    ("BaseVariantRaw", "base_variant_pattern", "_resolve_snrefs"):
        "matching parameters resolve their SNREFs at match time (MatchingParameter)",
    ("EcuVariantRaw", "ecu_variant_patterns", "_resolve_snrefs"):
        "matching parameters resolve their SNREFs at match time (MatchingParameter)",
    ("DiagService", "pos_response_suppressible", "_resolve_snrefs"):
        "PosResponseSuppressible keeps names only",
    ("StateTransition", "external_access_method", "_build_odxlinks"):
        "no reference type of ODX targets EXTERNAL-ACCESS-METHOD; its ID is never looked up",
}


def _own_field_names(ci: ClassInfo) -> List[str]:
    return [n for n, a, _d in ci.fields if a is not None]


def _field_classes(prog: Program, ci: ClassInfo, name: str) -> List[ClassInfo]:
    fa = prog.field_annotation(ci, name)
    if fa is None:
        return []
    t = ann_type(prog, fa[1].module, fa[0])
    out = classes_of(t) + classes_of(elem_type(t))
    if t is not None and t[0] == "union":
        for x in t[1]:
            out += classes_of(elem_type(x))
    return out


def check(prog: Program, run: Run) -> None:
    run.rule("C10.R1", "lookup order and uniqueness of ODXLINK and short-name resolution",
             floor=8)
    run.rule("C10.R2", "the link database passed to a layer is not modified; imported IDs never "
             "overwrite local ones", floor=3)
    run.rule("C10.R3", "every reference field is resolved by its class", floor=60)
    run.rule("C10.R4", "every sub-object holding IDs / references is visited by all three "
             "phases, under agreeing guards", floor=150)
    run.rule("C10.R5", "Database.refresh runs the phases in order for every container kind",
             floor=4)
    run.rule("C10.R6", "SNREFs are resolved against the context layer's inherited view; "
             "retargeting reaches all ancestors", floor=8)
    run.rule("C10.G3", "loaders never read a local that may be unassigned", floor=100)
    _lookup(prog, run)
    _fragment_lists(prog, run)
    _own_fragments(prog, run)
    _ownership(prog, run)
    _ref_fields(prog, run)
    _phases(prog, run)
    _refresh(prog, run)
    _scope(prog, run)
    _g3(prog, run)


def _own_fragments(prog: Program, run: Run) -> None:
    """A parser that derives the fragment list of the object it builds (`frags =
    <base>.odx_id.doc_fragments`: container fragment + the layer's own) hands THAT list to every
    sub-parser it calls afterwards; the list it received itself belongs to the enclosing
    document only -- an ID parsed with it is not local to the layer."""
    R = "C10.R1"
    n = 0
    for f in prog.iter_functions():
        if "from_et" not in f.name:
            continue
        incoming = [p for p in f.params() if p.endswith("doc_frags")]
        if not incoming:
            continue
        der = [x for x in walk_no_nested(f.node) if isinstance(x, ast.Assign) and isinstance(
            x.targets[0], ast.Name) and ast.unparse(x.value).endswith(".odx_id.doc_fragments")]
        # ... or used in place: K.from_et(elem, base.odx_id.doc_fragments)
        inline = [a for x in walk_no_nested(f.node) if isinstance(x, ast.Call)
                  for a in list(x.args) + [k.value for k in x.keywords]
                  if isinstance(a, ast.Attribute) and ast.unparse(a).endswith(
                      ".odx_id.doc_fragments") and isinstance(a.value.value, ast.Name)]
        if not der and not inline:
            continue
        n += 1
        if der:
            own = der[0].targets[0].id
            line0 = der[0].lineno
            if own in incoming:
                run.ok(R, f.qual, f"the derived fragment list shadows the parameter `{own}`: "
                       "every later sub-parser receives it", f"{f.module.rel}:{der[0].lineno}")
                continue
        else:
            own = ast.unparse(inline[0])
            base = inline[0].value.value.id  # type: ignore[attr-defined]
            defs = [x.lineno for x in walk_no_nested(f.node) if isinstance(x, ast.Assign) and
                    isinstance(x.targets[0], ast.Name) and x.targets[0].id == base]
            line0 = min(defs) if defs else 0
        bad = [x for x in walk_no_nested(f.node) if isinstance(x, ast.Call) and "from_et" in (
            call_name(x) or "") and x.lineno > line0 and any(
                isinstance(a, ast.Name) and a.id in incoming
                for a in list(x.args) + [k.value for k in x.keywords])]
        if bad:
            for x in bad:
                run.violation(R, f.qual, f"container-fragments-{call_name(x)}:" +
                              ast.unparse(x.func)[:40],
                              f"`{ast.unparse(x)[:70]}` still receives `{incoming[0]}` (the "
                              f"fragments of the enclosing document) although the object's own "
                              f"list `{own}` was derived before: IDs and references parsed there "
                              "are not local to the layer and bind to another layer's object "
                              "with the same local ID", f"{f.module.rel}:{x.lineno}",
                              ast.unparse(x)[:80])
        else:
            run.ok(R, f.qual, f"every sub-parser after the derivation receives `{own}`", f.loc)
    if n < 8:
        raise AnalysisError(f"only {n} parsers derive their own fragment list (expected >= 8)")


# ----------------------------------------------------------------------- R1
def _fragment_lists(prog: Program, run: Run) -> None:
    """The document-fragment list handed to a parser is shared with the caller (and with the
    OdxLinkIds built from it): a parser may only extend a private copy."""
    R = "C10.R1"
    MUT = ("append", "extend", "insert", "pop", "remove", "clear", "sort", "reverse")
    n = 0
    for f in prog.iter_functions():
        for pn in f.params():
            ann = f.param_annotation(pn)
            if ann is None or "OdxDocFragment" not in ast.unparse(ann) or \
                    "List" not in ast.unparse(ann):
                continue
            muts = []
            for x in walk_no_nested(f.node):
                if isinstance(x, ast.Call) and isinstance(x.func, ast.Attribute) and \
                        x.func.attr in MUT and isinstance(x.func.value, ast.Name) and \
                        x.func.value.id == pn:
                    muts.append(x)
                elif isinstance(x, ast.AugAssign) and isinstance(x.target, ast.Name) and \
                        x.target.id == pn:
                    muts.append(x)
                elif isinstance(x, (ast.Assign, ast.Delete)) and any(
                        isinstance(t, ast.Subscript) and isinstance(t.value, ast.Name) and
                        t.value.id == pn for t in x.targets):
                    muts.append(x)
            if not muts:
                continue
            cfg = CFG(f.node)
            fresh = [x for x in walk_no_nested(f.node) if isinstance(x, ast.Assign) and len(
                x.targets) == 1 and isinstance(x.targets[0], ast.Name) and x.targets[0].id == pn
                and (isinstance(x.value, (ast.List, ast.BinOp, ast.ListComp)) or (
                    isinstance(x.value, ast.Call) and call_name(x.value) in (
                        "copy", "list", "deepcopy")) or (
                            isinstance(x.value, ast.Subscript) and isinstance(
                                x.value.slice, ast.Slice)))]
            for m in muts:
                n += 1
                st = _stmt(f.node, m) if not isinstance(m, ast.stmt) else m
                mn = cfg.node_of(st)
                if any(cfg.dominates(cfg.node_of(a), mn) for a in fresh):
                    run.ok(R, f.qual, f"`{stmt_key(st)}` extends a private copy of {pn}",
                           f"{f.module.rel}:{m.lineno}")
                else:
                    run.violation(R, f.qual, f"shared-fragment-list-{pn}",
                                  f"`{stmt_key(st)}` mutates the caller's `{pn}` list: the same "
                                  "list object is the doc_fragments of the container's OdxLinkId "
                                  "and is handed to the next layer, so all layers of a container "
                                  "end up with one growing fragment list and identical local IDs "
                                  "in sibling layers bind across layers",
                                  f"{f.module.rel}:{m.lineno}", stmt_key(st))
    if n == 0:
        run.error(R, "no parser extends its document-fragment list (anchor: DiagLayerRaw.from_et)")


def _lookup(prog: Program, run: Run) -> None:
    R = "C10.R1"
    for nm in ("resolve", "resolve_lenient"):
        f = prog.func(f"OdxLinkDatabase.{nm}")
        C = f"OdxLinkDatabase.{nm}"
        loops = [l for l in walk_no_nested(f.node) if isinstance(l, ast.For)]
        if not loops:
            other = "resolve_lenient" if nm == "resolve" else "resolve"
            dele = [x for x in walk_no_nested(f.node) if isinstance(x, ast.Call) and isinstance(
                x.func, ast.Attribute) and x.func.attr == other and isinstance(
                    x.func.value, ast.Name) and x.func.value.id == "self"]
            og = prog.func(f"OdxLinkDatabase.{other}")
            if dele and any(isinstance(l, ast.For) for l in walk_no_nested(og.node)):
                run.ok(R, C, f"delegates the fragment search to {other}() (checked there)", f.loc)
                if nm == "resolve":
                    tail = [x for x in f.node.body if isinstance(x, ast.Expr) and isinstance(
                        x.value, ast.Call) and call_name(x.value) == "odxraise"]
                    if tail:
                        run.ok(R, C, "an unresolvable reference is reported", f.loc)
                    else:
                        run.violation(R, C, "dangling", "a dangling reference is not reported",
                                      f.loc)
                continue
        # the fragment loop is the one over the reference's own fragments; any other loop that
        # hands out an object widens the search beyond what the reference names
        frag_loops = [l for l in loops if any(isinstance(y, ast.Attribute) and y.attr == "ref_docs"
                                              for y in ast.walk(l.iter))]
        for l in loops:
            if l in frag_loops:
                continue
            if any(isinstance(r, ast.Return) and r.value is not None and not (
                    isinstance(r.value, ast.Constant) and r.value.value is None)
                    for r in ast.walk(l)):
                run.violation(R, C, "search-outside-reference-fragments",
                              f"`for {ast.unparse(l.target)} in {ast.unparse(l.iter)}` hands out "
                              "an object found outside the document fragments the reference names "
                              "(ref_docs): a dangling or mistyped reference silently binds to an "
                              "object with the same local ID in an unrelated layer",
                              f"{f.module.rel}:{l.lineno}", stmt_key(l))
        if len(frag_loops) == 1:
            loops = frag_loops
        if len(loops) != 1:
            raise AnalysisError(f"{C}: fragment loop not found")
        lp = loops[0]
        it = ast.unparse(lp.iter)
        if it in ("reversed(ref.ref_docs)", "ref.ref_docs[::-1]"):
            run.ok(R, C, "fragments are searched innermost first (reversed(ref.ref_docs))",
                   f"{f.module.rel}:{lp.lineno}")
        else:
            run.violation(R, C, "fragment-order",
                          f"the reference's document fragments are searched as `{it}`: the "
                          "outermost fragment (container) shadows an object with the same local "
                          "ID in the innermost one (layer)", f"{f.module.rel}:{lp.lineno}",
                          stmt_key(lp))
        rets = [r for r in ast.walk(lp) if isinstance(r, ast.Return)]

        def binding(name: str) -> Optional[ast.AST]:
            vals = []
            for x in ast.walk(lp):
                if isinstance(x, ast.NamedExpr) and isinstance(x.target, ast.Name) and \
                        x.target.id == name:
                    vals.append(x.value)
                if isinstance(x, ast.Assign) and len(x.targets) == 1 and isinstance(
                        x.targets[0], ast.Name) and x.targets[0].id == name:
                    vals.append(x.value)
            return vals[0] if len(vals) == 1 else None

        def lookup(e: Optional[ast.AST]) -> Optional[Tuple[ast.AST, ast.AST]]:
            """(table, key) of `table.get(key)` / `table[key]`"""
            if isinstance(e, ast.Call) and call_name(e) == "get" and isinstance(
                    e.func, ast.Attribute) and len(e.args) == 1:
                return e.func.value, e.args[0]
            if isinstance(e, ast.Subscript):
                return e.value, e.slice
            return None
        refp = f.params()[1]
        frag_var = ast.unparse(lp.target)
        hit_ok = bool(rets)
        obj_names = set()
        for r in rets:
            v = r.value
            if not isinstance(v, ast.Name):
                hit_ok = False
                continue
            obj_names.add(v.id)
            lk = lookup(binding(v.id))
            if lk is None or ast.unparse(lk[1]) != f"{refp}.ref_id":
                hit_ok = False
                continue
            tbl = lk[0]
            tl = lookup(binding(tbl.id)) if isinstance(tbl, ast.Name) else lookup(tbl)
            if tl is None or ast.unparse(tl[0]) != "self._db" or ast.unparse(tl[1]) != frag_var:
                hit_ok = False
        if rets and all(isinstance(r.value, ast.Name) for r in rets):
            run.ok(R, C, "the first fragment that knows the ID wins", f"{f.module.rel}:{lp.lineno}")
        else:
            run.violation(R, C, "first-hit", "the loop does not return the first hit", f.loc)
        if hit_ok:
            run.ok(R, C, "looks the local ID up in the fragment's own table", f.loc)
        else:
            run.violation(R, C, "lookup", "does not look ref.ref_id up in the table of the "
                          "fragment", f.loc)
        etp = f.params()[2] if len(f.params()) > 2 else "expected_type"
        def is_type_test(x: ast.AST) -> bool:
            return isinstance(x, ast.Call) and call_name(x) == "isinstance" and \
                len(x.args) == 2 and ast.unparse(x.args[0]) in obj_names and \
                ast.unparse(x.args[1]) == etp
        asserted = False
        for x in ast.walk(lp):
            # the type test feeds an odxassert, or guards a raise / odxraise
            if isinstance(x, ast.Call) and call_name(x) == "odxassert" and x.args and any(
                    is_type_test(y) for y in ast.walk(x.args[0])):
                asserted = True
            if isinstance(x, ast.If) and any(is_type_test(y) for y in ast.walk(x.test)) and any(
                    isinstance(y, ast.Raise) or (isinstance(y, ast.Call) and
                                                 call_name(y) == "odxraise")
                    for b_ in x.body + x.orelse for y in ast.walk(b_)):
                asserted = True
        if asserted:
            run.ok(R, C, "the expected type is asserted", f.loc)
        else:
            run.violation(R, C, "type-check", "the expected type is not asserted", f.loc)
        if nm == "resolve":
            tail = [x for x in f.node.body if isinstance(x, ast.Expr) and isinstance(
                x.value, ast.Call) and call_name(x.value) == "odxraise"]
            if tail:
                run.ok(R, C, "an unresolvable reference is reported", f.loc)
            else:
                run.violation(R, C, "dangling", "a dangling reference is not reported", f.loc)
    u = prog.func("OdxLinkDatabase.update")
    s = ast.unparse(u.node)
    cfg = CFG(u.node)
    # one registration, as a decision table over (overwrite, ID already present in the
    # fragment's table): the object is written unless overwrite is off and the ID is present
    ov = u.params()[2] if len(u.params()) > 2 else "overwrite"
    inner = [l for l in ast.walk(u.node) if isinstance(l, ast.For) and ast.unparse(
        l.iter).endswith(".doc_fragments")]
    bad_cases: List[str] = []
    if len(inner) != 1:
        bad_cases.append("no loop over the fragments of each ID")
    else:
        it_paths = symbolic_block_paths(inner[0].body)
        for overwrite in (True, False):
            for present in (True, False):
                def leaf(t: ast.AST, present=present):
                    if isinstance(t, ast.Compare) and len(t.ops) == 1 and isinstance(
                            t.ops[0], (ast.In, ast.NotIn)) and ast.unparse(t.left).endswith(
                                ".local_id"):
                        return present if isinstance(t.ops[0], ast.In) else not present
                    return None
                env = {ov: overwrite}
                outs = set()
                for p_ in it_paths:
                    if not all(eval_test(t, env, leaf) in (None, pol) for t, pol in p_.conds):
                        continue
                    wrote = any(tg.endswith(".local_id]") for tg, _v in p_.stores)
                    for st in p_.trace:
                        for x in ast.walk(st):
                            if isinstance(x, ast.Call) and call_name(x) == "setdefault" and \
                                    x.args and ast.unparse(x.args[0]).endswith(".local_id") and \
                                    not present:
                                wrote = True
                    outs.add(wrote)
                want = overwrite or not present
                if outs != {want}:
                    bad_cases.append(f"overwrite={overwrite}, ID already registered={present}: "
                                     f"the object is {'written' if True in outs else 'not written'}"
                                     f"{' on some paths' if len(outs) > 1 else ''}")
    if not bad_cases:
        run.ok(R, "OdxLinkDatabase.update", "overwrite=False keeps existing entries, "
               "overwrite=True replaces (4 scenarios)", u.loc)
    else:
        run.violation(R, "OdxLinkDatabase.update", "overwrite-semantics",
                      "update(overwrite=False) must keep existing IDs and add new ones, "
                      "update(overwrite=True) must replace: " + "; ".join(bad_cases), u.loc)
    if len(inner) == 1 and any(isinstance(x, ast.Attribute) and x.attr == "local_id"
                               for x in ast.walk(inner[0])):
        run.ok(R, "OdxLinkDatabase.update", "every ID is registered in each of its fragments "
               "under its local ID", u.loc)
    else:
        run.violation(R, "OdxLinkDatabase.update", "registration", "IDs are not registered per "
                      "fragment under their local ID", u.loc)
    # resolve_snref
    f = prog.func("odxtools.odxlink:resolve_snref")
    C = "resolve_snref"
    cfg = CFG(f.node, odxraise_continues=False)
    tgt, items = f.params()[0], f.params()[1]
    cand = [x for x in walk_no_nested(f.node) if isinstance(x, ast.Assign) and isinstance(
        x.value, (ast.ListComp, ast.GeneratorExp))]
    good_c = cand and ast.unparse(cand[0].value.generators[0].iter) == items and any(
        ast.unparse(i) == f"x.short_name == {tgt}" or "short_name ==" in ast.unparse(i)
        for i in cand[0].value.generators[0].ifs)
    if good_c:
        run.ok(R, C, "candidates = all items whose short_name equals the referenced name",
               f"{f.module.rel}:{cand[0].lineno}")
    else:
        run.violation(R, C, "candidates", "the candidates are not all items with the referenced "
                      "short name", f.loc)
    cname = ast.unparse(cand[0].targets[0]) if cand else "candidates"
    for a in walk_no_nested(f.node):
        if isinstance(a, ast.Assign) and ast.unparse(a.targets[0]) == cname and not (
                isinstance(a.value, (ast.ListComp, ast.GeneratorExp)) and ast.unparse(
                    a.value.generators[0].iter) == items and any(
                        "short_name ==" in ast.unparse(i) for i in a.value.generators[0].ifs)):
            run.violation(R, C, "candidates-other-source",
                          f"`{stmt_key(a)}` obtains the candidates by something other than a scan "
                          f"of `{items}` for equal short names (e.g. an index keyed by a mangled "
                          "name): duplicates are no longer seen as ambiguous and a name that only "
                          "exists as a mangled key binds to the wrong object",
                          f"{f.module.rel}:{a.lineno}", stmt_key(a))
    rets = [r for r in walk_no_nested(f.node) if isinstance(r, ast.Return) and r.value is not None
            and not (isinstance(r.value, ast.Constant) and r.value.value is None)]
    for r in rets:
        if ast.unparse(r.value) != f"{cname}[0]":
            run.violation(R, C, "returns-without-uniqueness-check",
                          f"`{stmt_key(r)}` returns an object that did not go through the "
                          "'exactly one candidate of the expected type' tests (e.g. a dictionary "
                          "lookup by a mangled key): an ambiguous or dangling short-name "
                          "reference binds silently", f"{f.module.rel}:{r.lineno}", stmt_key(r))
    # decision table over (number of candidates, expected type): an error is reported unless
    # there is exactly one candidate of the expected type, and then that candidate is returned
    paths = symbolic_paths(f.node, opaque=[cname])
    exp = f.params()[2] if len(f.params()) > 2 else "expected_type"
    inst = f"isinstance({cname}[0], {exp})"

    def behaviours(count: int, typed: Optional[bool]) -> Set[Tuple[bool, str]]:
        env: Dict[str, object] = {cname: [0] * count, f"len({cname})": count,
                                  exp: None if typed is None else "T"}
        if typed is not None:
            env[inst] = typed
        got = set()
        for p in paths:
            if all(eval_test(t, env) in (None, pol) for t, pol in p.conds):
                err = any(isinstance(st, ast.Raise) or (isinstance(st, ast.Expr) and isinstance(
                    st.value, ast.Call) and call_name(st.value) == "odxraise")
                    for st in p.trace)
                got.add((err, ast.unparse(p.retval) if p.retval is not None else "None"))
        return got or {(True, "raise")}
    bad = []
    for count, typed, want_err in ((0, None, True), (0, True, True), (2, None, True),
                                   (2, True, True), (1, None, False), (1, True, False),
                                   (1, False, True)):
        got = behaviours(count, typed)
        for err, val in sorted(got):
            if err != want_err:
                bad.append(f"{count} candidate(s), expected type "
                           f"{'not given' if typed is None else ('matches' if typed else 'differs')}"
                           f": {'an error is reported' if err else 'no error is reported'}")
            elif not err and val != f"{cname}[0]":
                bad.append(f"{count} candidate(s): returns `{val}` instead of the candidate")
    if not bad:
        run.ok(R, C, "returns candidates[0] only after: none -> error, several -> error, wrong "
               "type -> error (7 scenarios of the decision table)", f.loc)
    else:
        run.violation(R, C, "uniqueness",
                      "a short-name reference is not required to have exactly one candidate of "
                      f"the expected type ({'; '.join(sorted(set(bad)))})", f.loc)


def _stmt(fn: ast.AST, x: ast.AST) -> ast.stmt:
    best = None
    for st in walk_no_nested(fn):
        if isinstance(st, ast.stmt) and st is not fn and not isinstance(
                st, (ast.If, ast.For, ast.While, ast.Try, ast.With)) and any(
                    z is x for z in ast.walk(st)):
            best = st
    if best is None:
        for st in walk_no_nested(fn):
            if isinstance(st, (ast.If, ast.While)) and any(z is x for z in ast.walk(st.test)):
                best = st
            if isinstance(st, ast.For) and any(z is x for z in ast.walk(st.iter)):
                best = st
    if best is None:
        raise AnalysisError("expression without statement")
    return best


# ----------------------------------------------------------------------- R2
def _ownership(prog: Program, run: Run) -> None:
    R = "C10.R2"
    f = prog.func("DiagLayer._resolve_odxlinks")
    C = "DiagLayer._resolve_odxlinks"
    db = f.params()[1]
    copies = [x for x in walk_no_nested(f.node) if isinstance(x, ast.Assign) and isinstance(
        x.value, ast.Call) and call_name(x.value) in ("copy", "deepcopy") and [
            ast.unparse(a) for a in x.value.args] == [db]]
    # direct mutation of the argument
    for x in walk_no_nested(f.node):
        if isinstance(x, ast.Call) and isinstance(x.func, ast.Attribute) and x.func.attr in (
                "update",) and ast.unparse(x.func.value) == db:
            run.violation(R, C, "mutates-argument",
                          f"`{ast.unparse(x)}` adds the imported IDs to the database that is "
                          "shared by all layers", f"{f.module.rel}:{x.lineno}")
    if not copies:
        run.violation(R, C, "no-copy", "the imported IDs are not added to a private copy of the "
                      "link database", f.loc)
        return
    cpy = ast.unparse(copies[0].targets[0])
    ol = prog.cls("OdxLinkDatabase")
    if call_name(copies[0].value) == "copy":
        cm = ol.methods.get("__copy__")
        if cm is None:
            run.violation(R, C, "copy-aliases-_db",
                          f"`{stmt_key(copies[0])}` is a shallow copy and OdxLinkDatabase defines "
                          "no __copy__: the copy shares the `_db` dictionary with the global "
                          "database, so the IDs imported by one layer become visible to (and can "
                          "shadow IDs of) every other layer", f"{f.module.rel}:{copies[0].lineno}",
                          stmt_key(copies[0]))
        else:
            s = ast.unparse(cm.node)
            # the copy's `_db` is built by copying every per-fragment table
            deep = False
            for x in ast.walk(cm.node):
                if isinstance(x, ast.DictComp) and isinstance(x.value, ast.Call) and (
                        call_name(x.value) in ("copy", "dict")):
                    deep = True
                if isinstance(x, ast.Call) and call_name(x) == "deepcopy":
                    deep = True
                if isinstance(x, ast.For) and any(
                        isinstance(y, ast.Call) and call_name(y) in ("copy", "dict")
                        for y in ast.walk(x)):
                    deep = True
            if deep:
                run.ok(R, "OdxLinkDatabase.__copy__", "copies the per-fragment tables, so a copy "
                       "can be extended without touching the original", cm.loc)
            else:
                run.violation(R, "OdxLinkDatabase.__copy__", "shallow",
                              "__copy__ does not copy the per-fragment tables", cm.loc)
    upd = [x for x in walk_no_nested(f.node) if isinstance(x, ast.Call) and isinstance(
        x.func, ast.Attribute) and x.func.attr == "update" and ast.unparse(x.func.value) == cpy]
    if upd and any(k.arg == "overwrite" and ast.unparse(k.value) == "False"
                   for k in upd[0].keywords):
        run.ok(R, C, "imported IDs are added with overwrite=False: local definitions win",
               f"{f.module.rel}:{upd[0].lineno}")
    else:
        run.violation(R, C, "import-overwrites",
                      f"`{ast.unparse(upd[0]) if upd else '?'}`: imported IDs must be added with "
                      "overwrite=False, otherwise an imported object replaces a local object "
                      "with the same ID and fragment-relative references bind to the wrong one",
                      f"{f.module.rel}:{upd[0].lineno if upd else f.node.lineno}")
    res = [x for x in walk_no_nested(f.node) if isinstance(x, ast.Call) and call_name(x) ==
           "_resolve_odxlinks"]
    if any([ast.unparse(a) for a in c.args] == [cpy] for c in res):
        run.ok(R, C, "the layer resolves against the extended copy", f.loc)
    else:
        run.violation(R, C, "resolves-original", "the raw layer is not resolved against the "
                      "extended copy", f.loc)
    # every ID entered into the table of imported objects is OdxLinkId(<imported id>.local_id,
    # <own fragments>); temporaries are followed to their single definition
    def resolved(e: ast.AST, depth: int = 0) -> str:
        if isinstance(e, ast.Name) and depth < 4:
            defs = [x.value for x in walk_no_nested(f.node) if isinstance(x, ast.Assign) and
                    len(x.targets) == 1 and isinstance(x.targets[0], ast.Name) and
                    x.targets[0].id == e.id]
            if len(defs) == 1:
                return resolved(defs[0], depth + 1)
        return ast.unparse(e)

    def rehomed(k: ast.AST) -> bool:
        if isinstance(k, ast.Name):
            defs = [x.value for x in ast.walk(f.node) if isinstance(x, ast.Assign) and
                    len(x.targets) == 1 and isinstance(x.targets[0], ast.Name) and
                    x.targets[0].id == k.id]
            # the loop variable re-bound to its re-homed twin
            return bool(defs) and all(rehomed(d) for d in defs if not isinstance(d, ast.Name))
        return isinstance(k, ast.Call) and call_name(k) == "OdxLinkId" and len(k.args) == 2 and \
            isinstance(k.args[0], ast.Attribute) and k.args[0].attr == "local_id" and \
            resolved(k.args[1]) == "self.odx_id.doc_fragments"
    imp = None
    for x in upd[:1]:
        if x.args and isinstance(x.args[0], ast.Name):
            imp = x.args[0].id
    keys: List[ast.AST] = []
    if imp is not None:
        for x in ast.walk(f.node):
            if isinstance(x, ast.Assign) and isinstance(x.targets[0], ast.Subscript) and \
                    ast.unparse(x.targets[0].value) == imp:
                keys.append(x.targets[0].slice)
            if isinstance(x, ast.Call) and isinstance(x.func, ast.Attribute) and x.func.attr in (
                    "update",) and ast.unparse(x.func.value) == imp and x.args:
                a0 = x.args[0]
                if isinstance(a0, ast.DictComp):
                    keys.append(a0.key)
                else:
                    keys.append(a0)  # something we cannot see through
    if keys and all(rehomed(k) for k in keys):
        run.ok(R, C, "imported IDs are re-homed to the importing layer's fragments", f.loc)
    else:
        run.violation(R, C, "rehome", "imported IDs are not re-homed to the importing layer's "
                      "document fragments"
                      + (f" (`{ast.unparse([k for k in keys if not rehomed(k)][0])}`)"
                         if keys else ""), f.loc)


# ----------------------------------------------------------------------- R3
def _requires_present(test: ast.expr, pol: bool) -> Optional[str]:
    """`self.<f>` when (test, polarity) can only hold if self.<f> is present (not None)."""
    if isinstance(test, ast.UnaryOp) and isinstance(test.op, ast.Not):
        return _requires_present(test.operand, not pol)
    if isinstance(test, ast.Compare) and len(test.ops) == 1 and isinstance(
            test.comparators[0], ast.Constant) and test.comparators[0].value is None:
        e, op = test.left, test.ops[0]
        if (isinstance(op, ast.IsNot) and pol) or (isinstance(op, ast.Is) and not pol):
            if isinstance(e, ast.Attribute) and isinstance(e.value, ast.Name) and \
                    e.value.id == "self":
                return e.attr
    if pol and isinstance(test, ast.Attribute) and isinstance(test.value, ast.Name) and \
            test.value.id == "self":
        return test.attr
    return None


def _guard_independent(run: Run, R: str, c: ClassInfo, m: FuncInfo, call: ast.Call,
                       name: str) -> None:
    """The resolve call for self.<name> must not sit under a guard that requires ANOTHER
    reference field of the same object to be present: ODX lets the alternatives be combined
    freely (e.g. TABLE-REF with TABLE-ROW-SNREF), so a reference that is only resolved when its
    sibling is given stays unresolved -- silently -- for the other combinations."""
    cfg = CFG(m.node)
    try:
        node = cfg.node_of(_stmt(m.node, call))
    except Exception:
        return
    for t, pol in cfg.branch_conditions(node):
        other = _requires_present(t, pol)
        if other and other != name and (other.endswith("ref") or other.endswith("refs")) and \
                other.split("_sn")[0].split("_ref")[0] != name.split("_sn")[0].split("_ref")[0]:
            run.violation(R, f"{c.name}.{name}", f"resolved-only-with-{other}",
                          f"`{ast.unparse(call)[:90]}` in {c.name}.{m.name} is only reached when "
                          f"self.{other} is present: with the other way of naming that object "
                          f"self.{name} is never resolved (and a dangling name is not reported)",
                          f"{m.module.rel}:{call.lineno}")
            return
    run.ok(R, f"{c.name}.{name}", "its resolve call does not depend on a sibling reference being "
           "present", f"{m.module.rel}:{call.lineno}")


def _ref_fields(prog: Program, run: Run) -> None:
    R = "C10.R3"
    seen: Set[int] = set()
    n = 0
    for ci in sorted({id(c): c for c in prog.classes_by_mod.values()}.values(),
                     key=lambda c: c.name):
        if not ci.is_dataclass or ci.name in REF_EXEMPT_CLASSES:
            continue
        for name, ann, _d in ci.fields:
            if ann is None:
                continue
            a = ast.unparse(ann)
            is_link = "OdxLinkRef" in a
            is_sn = name.endswith("_snref") or name.endswith("_snrefs") or name.endswith(
                "_snpathref")
            if not (is_link or is_sn):
                continue
            n += 1
            if (ci.name, name) in REF_EXEMPT:
                run.ok(R, f"{ci.name}.{name}", f"exempt: {REF_EXEMPT[(ci.name, name)]}", ci.loc)
                continue
            phase = "_resolve_odxlinks" if is_link else "_resolve_snrefs"
            hit = False
            where = []
            for c in [ci] + prog.subclasses(ci, strict=True):
                for mname, m in c.methods.items():
                    if not ("resolve" in mname or mname in ("_finalize_init",)):
                        continue
                    where.append(m)
                    for x in walk_no_nested(m.node):
                        if isinstance(x, ast.Call) and call_name(x) in (
                                "resolve", "resolve_lenient", "resolve_snref", "retarget_snrefs"):
                            if any(isinstance(y, ast.Attribute) and y.attr == name and isinstance(
                                    y.value, ast.Name) and y.value.id == "self"
                                   for a2 in x.args for y in ast.walk(a2)):
                                hit = True
                                if x.args and ast.unparse(x.args[0]) == f"self.{name}":
                                    _guard_independent(run, R, c, m, x, name)
                        # loop variable over self.<name>
                        if isinstance(x, (ast.For, ast.comprehension)) and any(
                                isinstance(y, ast.Attribute) and y.attr == name
                                for y in ast.walk(x.iter)):
                            tv = {z.id for z in ast.walk(x.target) if isinstance(z, ast.Name)}
                            scope = x if isinstance(x, ast.For) else m.node
                            for y in ast.walk(scope):
                                if isinstance(y, ast.Call) and call_name(y) in (
                                        "resolve", "resolve_lenient", "resolve_snref") and any(
                                            isinstance(z, ast.Name) and z.id in tv
                                            for a2 in y.args for z in ast.walk(a2)):
                                    hit = True
            # other classes resolving this field on our behalf (owner.field)
            if not hit:
                for g in prog.iter_functions():
                    if "resolve" not in g.name:
                        continue
                    for x in walk_no_nested(g.node):
                        if isinstance(x, ast.Call) and call_name(x) in (
                                "resolve", "resolve_lenient", "resolve_snref") and any(
                                    isinstance(y, ast.Attribute) and y.attr == name and not (
                                        isinstance(y.value, ast.Name) and y.value.id == "self")
                                    for a2 in x.args for y in ast.walk(a2)):
                            hit = True
            if hit:
                run.ok(R, f"{ci.name}.{name}", f"consumed by a resolve call ({phase})", ci.loc)
            else:
                run.violation(R, f"{ci.name}.{name}", "never-resolved",
                              f"the reference field {ci.name}.{name} is parsed but no "
                              f"{phase} code ever resolves it: the accessor for the referenced "
                              "object stays unset / stale", ci.loc)
    if n < 80:
        raise AnalysisError(f"only {n} reference fields found (expected about 108)")


# ----------------------------------------------------------------------- R4
def _phases(prog: Program, run: Run) -> None:
    R = "C10.R4"
    memo: Dict[Tuple[str, str], bool] = {}

    def trivial(m: FuncInfo) -> bool:
        body = [s for s in m.node.body if not (isinstance(s, ast.Expr) and isinstance(
            s.value, ast.Constant))]
        txt = [ast.unparse(s) for s in body]
        return all(t in ("pass", "return {}", "return result", "return odxlinks") or
                   t.startswith("super().") or t.startswith("result = super().") or
                   t.startswith("odxlinks = super().") or t.startswith("return super().")
                   for t in txt)

    def needs(ci: ClassInfo, ph: str, seen: Tuple[str, ...] = ()) -> bool:
        k = (ci.name, ph)
        if k in memo:
            return memo[k]
        if ci.name in seen:
            return False
        r = False
        if ph == "_resolve_snrefs":
            m = prog.lookup(ci, ph)
            own = ci.methods.get(ph)
            if own is not None and not trivial(own) and any(
                    isinstance(x, ast.Call) and call_name(x) in ("resolve_snref",)
                    for x in ast.walk(own.node)):
                r = True
        for n, ann, _c in prog.all_fields(ci):
            a = ast.unparse(ann)
            if ph == "_build_odxlinks" and "OdxLinkId" in a:
                r = True
            if ph == "_resolve_odxlinks" and "OdxLinkRef" in a and ci.name not in \
                    REF_EXEMPT_CLASSES:
                r = True
            for c in _field_classes(prog, ci, n):
                if c.name in ("OdxLinkId", "OdxLinkRef", "OdxDocFragment"):
                    continue
                for sub in [c] + prog.subclasses(c, strict=True):
                    if needs(sub, ph, seen + (ci.name,)):
                        r = True
        memo[k] = r
        return r

    RUNTIME = {"EncodeState", "DecodeState", "Message", "SnRefContext", "Database"}
    n = 0
    for ci in sorted({id(c): c for c in prog.classes_by_mod.values()}.values(),
                     key=lambda c: c.name):
        if ci.name in RUNTIME or not any(m in ci.methods for m in PHASES):
            continue
        own = _own_field_names(ci)
        visits: Dict[str, Dict[str, List[Tuple[str, bool]]]] = {}
        for ph in PHASES:
            m = ci.methods.get(ph)
            if m is None:
                continue
            cfg = CFG(m.node)
            for x in walk_no_nested(m.node):
                if isinstance(x, ast.Attribute) and isinstance(x.value, ast.Name) and \
                        x.value.id == "self" and x.attr in own and isinstance(x.ctx, ast.Load):
                    try:
                        st = _stmt(m.node, x)
                        conds = [(norm_test(t), p) for t, p in cfg.branch_conditions(
                            cfg.node_of(st))]
                    except AnalysisError:
                        conds = []
                    visits.setdefault(x.attr, {}).setdefault(ph, []).extend(conds or [("", True)])
        for name in own:
            classes = [c for c in _field_classes(prog, ci, name)
                       if c.name not in ("OdxLinkId", "OdxLinkRef", "OdxDocFragment")]
            if not classes:
                continue
            for ph in PHASES:
                req = any(needs(sub, ph) for c in classes
                          for sub in [c] + prog.subclasses(c, strict=True))
                if not req:
                    continue
                n += 1
                key = (ci.name, name, ph)
                if key in PHASE_EXEMPT:
                    run.ok(R, f"{ci.name}.{ph}", f"{name}: not visited by design "
                           f"({PHASE_EXEMPT[key]})", ci.loc)
                    continue
                m = ci.methods.get(ph)
                visited = ph in visits.get(name, {})
                impl = [c for c in classes for sub in [c] + prog.subclasses(c, strict=True)
                        if prog.lookup(sub, ph) is not None]
                if visited:
                    run.ok(R, f"{ci.name}.{ph}", f"visits self.{name}", m.loc if m else ci.loc)
                elif not impl:
                    tc = classes[0]
                    run.violation(R, f"{tc.name}", f"no-{ph}",
                                  f"{tc.name} objects carry an ODXLINK ID (or references) but the "
                                  f"class has no {ph}(): its owners (e.g. {ci.name}.{name}) cannot "
                                  "register / resolve them, so a reference to such an object "
                                  "cannot be resolved when the database is loaded", tc.loc)
                else:
                    what = {"_build_odxlinks": "the IDs defined below it are not registered, "
                                               "references to them cannot be resolved",
                            "_resolve_odxlinks": "the ODXLINK references below it are never "
                                                 "resolved; their accessors raise AttributeError",
                            "_resolve_snrefs": "the short-name references below it are never "
                                               "resolved"}[ph]
                    run.violation(R, f"{ci.name}.{ph}", f"{name}-not-visited",
                                  f"{ci.name}.{ph} "
                                  f"{'is inherited and' if m is None else ''} does not descend "
                                  f"into self.{name} ({'/'.join(c.name for c in classes)}): "
                                  f"{what}", (m.loc if m else ci.loc))
            # guard agreement between the phases that do visit the field
            v = visits.get(name, {})
            guards = {}
            for ph, cs in v.items():
                gs = {(t, p) for t, p in cs if t and (f"self.{name}" not in t) and "self." in t}
                guards[ph] = gs
            phs = [ph for ph in PHASES if ph in guards]
            for i in range(len(phs)):
                for j in range(i + 1, len(phs)):
                    a, b = guards[phs[i]], guards[phs[j]]
                    for t, p in a:
                        if (t, not p) in b and (t, p) not in b:
                            run.violation(R, f"{ci.name}.{phs[j]}", f"{name}-guard-inverted",
                                          f"self.{name} is visited by {phs[i]} when `{t}` is {p} "
                                          f"but by {phs[j]} when it is {not p}: for the "
                                          "descriptions one phase handles the other one skips "
                                          "the sub-objects", ci.methods[phs[j]].loc)
        # super() chaining: an override that does not call super() loses the base's visits
        for ph in PHASES:
            m = ci.methods.get(ph)
            if m is None:
                continue
            base = prog.lookup_after(ci, ci, ph)
            if base is None or trivial(base):
                continue
            calls_super = any(isinstance(x, ast.Call) and isinstance(x.func, ast.Attribute) and
                              x.func.attr == ph and isinstance(x.func.value, ast.Call) and
                              call_name(x.func.value) == "super" for x in ast.walk(m.node)) or any(
                                  isinstance(x, ast.Call) and isinstance(x.func, ast.Attribute)
                                  and x.func.attr == ph and isinstance(x.func.value, ast.Name) and
                                  x.func.value.id == base.cls.name for x in ast.walk(m.node))
            n += 1
            if calls_super:
                run.ok(R, f"{ci.name}.{ph}", f"chains to {base.cls.name}.{ph}", m.loc)
            else:
                # does the override visit everything the base visits itself?
                bvis = {x.attr for x in ast.walk(base.node) if isinstance(x, ast.Attribute) and
                        isinstance(x.value, ast.Name) and x.value.id == "self" and x.attr in
                        [n2 for n2, _a, _c in prog.all_fields(base.cls)]}
                mvis = {x.attr for x in ast.walk(m.node) if isinstance(x, ast.Attribute) and
                        isinstance(x.value, ast.Name) and x.value.id == "self"}
                missing = sorted(b for b in bvis - mvis if b not in ("odx_id",))
                if missing:
                    run.violation(R, f"{ci.name}.{ph}", "super-not-called",
                                  f"{ci.name}.{ph} overrides {base.cls.name}.{ph} without calling "
                                  f"it and does not visit {missing} itself", m.loc)
                else:
                    run.ok(R, f"{ci.name}.{ph}", f"re-implements {base.cls.name}.{ph} completely",
                           m.loc)
    run.info("phase_obligations", n)


# ----------------------------------------------------------------------- R5
def _refresh(prog: Program, run: Run) -> None:
    R = "C10.R5"
    f = prog.func("Database.refresh")
    cfg = CFG(f.node)
    C = "Database.refresh"

    loops = [l for l in walk_no_nested(f.node) if isinstance(l, ast.For)]
    KIND = {"comparam_subsets": "subset", "comparam_specs": "spec",
            "diag_layer_containers": "dlc"}

    def sources(e: ast.AST, depth: int = 0) -> Set[str]:
        """the container lists an iterable draws from: `self.<list>` mentioned in the
        expression, in the single definition of a local it names, or in a helper method of the
        class it calls (chain(...), a generator with `yield from`, ...)"""
        out: Set[str] = set()
        for y in ast.walk(e):
            if isinstance(y, ast.Attribute) and isinstance(y.value, ast.Name) and \
                    y.value.id == "self" and y.attr in KIND:
                out.add(KIND[y.attr])
            if depth < 3 and isinstance(y, ast.Call) and isinstance(y.func, ast.Attribute) and \
                    isinstance(y.func.value, ast.Name) and y.func.value.id == "self" and f.cls:
                h = prog.lookup(f.cls, y.func.attr)
                if h is not None and h is not f:
                    out |= sources(h.node, depth + 1)
            if depth < 3 and isinstance(y, ast.Name) and isinstance(y.ctx, ast.Load):
                defs = [a.value for a in walk_no_nested(f.node) if isinstance(a, ast.Assign) and
                        len(a.targets) == 1 and isinstance(a.targets[0], ast.Name) and
                        a.targets[0].id == y.id]
                if len(defs) == 1:
                    out |= sources(defs[0], depth + 1)
        return out

    def nodes(callee: str) -> List[Tuple[int, str]]:
        """(CFG node, kind of container) for every call of the phase method; the kind is read
        off what the loop that binds the receiver iterates over"""
        out = []
        for n in cfg.nodes:
            if n.stmt is None or n.kind != "stmt":
                continue
            for x in walk_no_nested(n.stmt):
                if isinstance(x, ast.Call) and call_name(x) == callee and isinstance(
                        x.func, ast.Attribute):
                    recv = x.func.value
                    kinds_: Set[str] = set()
                    if isinstance(recv, ast.Name):
                        for l in loops:
                            if any(z is n.stmt for b_ in l.body for z in ast.walk(b_)) and any(
                                    isinstance(t, ast.Name) and t.id == recv.id
                                    for t in ast.walk(l.target)):
                                kinds_ |= sources(l.iter)
                    for k in sorted(kinds_) or [ast.unparse(recv)]:
                        out.append((n.id, k))
        return out
    build = [n.id for n in cfg.nodes if n.stmt is not None and n.kind == "stmt" and
             "self._odxlinks.update(self._build_odxlinks())" in ast.unparse(n.stmt)]
    res = nodes("_resolve_odxlinks")
    fin = nodes("_finalize_init")
    sn = nodes("_resolve_snrefs")
    if not build:
        run.violation(R, C, "no-build", "the link database is not filled from _build_odxlinks()",
                      f.loc)
        return
    kinds = {"subset", "spec", "dlc"}
    for name, lst in (("_resolve_odxlinks", res), ("_finalize_init", fin),
                      ("_resolve_snrefs", sn)):
        got = {r for _n, r in lst}
        if kinds <= got:
            run.ok(R, C, f"{name} runs for comparam subsets, comparam specs and diag layer "
                   "containers", f.loc)
        else:
            run.violation(R, C, f"{name}-incomplete",
                          f"{name} is not run for {sorted(kinds - got)}", f.loc)
    order = [("build", build), ("_resolve_odxlinks", [n for n, _ in res]),
             ("_finalize_init", [n for n, _ in fin]), ("_resolve_snrefs", [n for n, _ in sn])]
    for (an, a), (bn, b) in zip(order, order[1:]):
        bad = [(x, y) for x in a for y in b if y in cfg.reachable(0) and x in cfg.reachable(y)]
        # every b must come after every a: a must not be reachable from b
        if a and b and not bad and all(any(cfg.dominates(x, y) or True for x in a) for y in b):
            run.ok(R, C, f"{an} of all containers completes before {bn} starts", f.loc)
        else:
            run.violation(R, C, f"phase-order-{an}-{bn}",
                          f"{bn} can run before {an} has completed for every container: "
                          "references to objects of containers handled later do not resolve",
                          f.loc)


def _context_window(prog: Program, run: Run, R: str) -> None:
    """One SnRefContext object is handed through the whole resolution pass.  A field of it that
    somebody CONSULTS (context.parameters, context.diag_layer, ...) describes the object that
    is being resolved right now: whoever sets it to itself takes it back (None, or the saved
    value) on every normal exit, otherwise the next object -- a response after the last request
    -- is resolved against its predecessor."""
    read: Dict[str, List[str]] = {}
    setters: List[Tuple[FuncInfo, str, ast.Assign]] = []
    for f in prog.iter_functions():
        if "context" not in f.params():
            continue
        for x in walk_no_nested(f.node):
            if isinstance(x, ast.Attribute) and isinstance(x.value, ast.Name) and \
                    x.value.id == "context" and isinstance(x.ctx, ast.Load):
                read.setdefault(x.attr, []).append(f"{f.module.rel}:{x.lineno}")
            if isinstance(x, ast.Assign) and len(x.targets) == 1 and isinstance(
                    x.targets[0], ast.Attribute) and isinstance(x.targets[0].value, ast.Name) \
                    and x.targets[0].value.id == "context":
                setters.append((f, x.targets[0].attr, x))
    # fields that the entry points fill in for the whole pass (retarget_snrefs: the layer whose
    # view counts, the database) belong to them: no _resolve_snrefs may overwrite or clear them
    rt = prog.func("odxtools.utils:retarget_snrefs")
    owned = {x.targets[0].attr for x in walk_no_nested(rt.node) if isinstance(x, ast.Assign) and
             isinstance(x.targets[0], ast.Attribute) and isinstance(x.targets[0].value, ast.Name)
             and x.targets[0].value.id == "context"}
    for f, fld, st in setters:
        if f.name == "_resolve_snrefs" and fld in owned:
            run.violation(R, f"{f.module.rel}:{f.qual}", f"context-{fld}-overwritten",
                          f"`{stmt_key(st)}`: context.{fld} is set by retarget_snrefs() for the "
                          "whole pass (the layer whose inherited view the references are "
                          "resolved in); a _resolve_snrefs that writes it makes every object "
                          "resolved afterwards fall back to its own layer",
                          f"{f.module.rel}:{st.lineno}", stmt_key(st))
    n = 0
    for f, fld, st in setters:
        if isinstance(st.value, ast.Constant) and st.value.value is None:
            continue
        cfg = CFG(f.node)
        sn = cfg.node_of(st)
        # `if context.F is None: context.F = ...` is the default of an entry point
        if any(norm_test(t, negate=not pol) == f"context.{fld} is None"
               for t, pol in cfg.branch_conditions(sn)):
            continue
        # compare-only reads (`context.F is None`) do not consult the value
        consulted = [r for r in read.get(fld, [])]
        if not consulted:
            continue
        n += 1
        saved = {x.targets[0].id for x in walk_no_nested(f.node) if isinstance(x, ast.Assign) and
                 ast.unparse(x.value) == f"context.{fld}" and isinstance(x.targets[0], ast.Name)}
        resets = [x for x in walk_no_nested(f.node) if isinstance(x, ast.Assign) and
                  ast.unparse(x.targets[0]) == f"context.{fld}" and x is not st and (
                      isinstance(x.value, ast.Constant) and x.value.value is None or
                      isinstance(x.value, ast.Name) and x.value.id in saved)]
        rn = [cfg.node_of(r) for r in resets]
        if rn and cfg.must_pass(sn, rn, EXIT):
            run.ok(R, f"{f.module.rel}:{f.qual}", f"context.{fld} is set for the duration of the "
                   "call and taken back on every normal exit", f"{f.module.rel}:{st.lineno}")
        else:
            run.violation(R, f"{f.module.rel}:{f.qual}", f"context-{fld}-left-set",
                          f"`{stmt_key(st)}` is not taken back on every normal exit, and "
                          f"context.{fld} is consulted (e.g. {consulted[0]}): the objects "
                          "resolved afterwards with the same context see this one",
                          f"{f.module.rel}:{st.lineno}", stmt_key(st))
    if n < 3:
        raise AnalysisError(f"context window: only {n} setters of consulted SnRefContext fields")


# ----------------------------------------------------------------------- R6
def _scope(prog: Program, run: Run) -> None:
    R = "C10.R6"
    n = 0
    for f in prog.iter_functions():
        if f.name != "_resolve_snrefs":
            continue
        for x in walk_no_nested(f.node):
            if isinstance(x, ast.Call) and call_name(x) == "resolve_snref" and len(x.args) >= 2:
                n += 1
                src = x.args[1]
                names = {y.id for y in ast.walk(src) if isinstance(y, ast.Name)}
                # resolve local aliases
                txt = ast.unparse(src)
                todo = set(names)
                for _ in range(4):
                    new_names: Set[str] = set()
                    for a in walk_no_nested(f.node):
                        if isinstance(a, ast.Assign) and isinstance(a.targets[0], ast.Name) and \
                                a.targets[0].id in todo:
                            txt += " <- " + ast.unparse(a.value)
                            new_names |= {y.id for y in ast.walk(a.value)
                                          if isinstance(y, ast.Name)}
                    todo = new_names - names
                    names |= new_names
                    if not todo:
                        break
                if "diag_layer_raw" in txt:
                    run.violation(R, f"{f.module.rel}:{f.qual}", "raw-layer-scope",
                                  f"`{ast.unparse(x)}` searches the un-inherited raw layer "
                                  f"({txt}): objects that are inherited from parent layers or "
                                  "overridden by the context layer are not found / the wrong one "
                                  "is bound", f"{f.module.rel}:{x.lineno}", ast.unparse(x))
                elif "context." in txt or "self." in txt:
                    run.ok(R, f"{f.module.rel}:{f.qual}", f"`{ast.unparse(x.args[0])}` is "
                           f"resolved within `{ast.unparse(src)}`", f"{f.module.rel}:{x.lineno}")
                else:
                    run.violation(R, f"{f.module.rel}:{f.qual}", "unknown-scope",
                                  f"`{ast.unparse(x)}`: the candidates do not come from the "
                                  "context or the object itself", f"{f.module.rel}:{x.lineno}")
    if n < 10:
        raise AnalysisError(f"only {n} resolve_snref calls in _resolve_snrefs methods")
    _context_window(prog, run, R)
    # DOP search list
    ddds = prog.cls("DiagDataDictionarySpec")
    pi = ddds.methods.get("__post_init__")
    chained = set()
    if pi is not None:
        for x in walk_no_nested(pi.node):
            if isinstance(x, ast.Call) and call_name(x) == "chain":
                for a in x.args:
                    if isinstance(a, ast.Attribute):
                        chained.add(a.attr)
    for name, ann, c in prog.all_fields(ddds):
        cl = _field_classes(prog, ddds, name)
        if any(prog.is_subclass(k, "DopBase") for k in cl) and not any(
                k.name == "Table" for k in cl):
            if name in chained:
                run.ok(R, "DiagDataDictionarySpec.all_data_object_properties",
                       f"{name} is part of the DOP search list", ddds.loc)
            else:
                run.violation(R, "DiagDataDictionarySpec.all_data_object_properties",
                              f"category-{name}-missing",
                              f"the DOP category `{name}` is not part of "
                              "all_data_object_properties: a DOP-SNREF to such an object cannot "
                              "be resolved", ddds.loc)
    # retarget_snrefs
    f = prog.func("odxtools.utils:retarget_snrefs")
    cfg = CFG(f.node)
    s = ast.unparse(f.node)
    p = f.params()
    # the context object may travel under a local name (`ctx = context or SnRefContext()`)
    cx = "context"
    for x in walk_no_nested(f.node):
        if isinstance(x, ast.Call) and call_name(x) == "_resolve_snrefs" and x.args and \
                isinstance(x.args[0], ast.Name) and ast.unparse(x.func.value) == p[1]:
            cx = x.args[0].id
    setctx = [n.id for n in cfg.nodes if n.stmt is not None and n.kind == "stmt" and
              f"{cx}.diag_layer = {p[1]}" in ast.unparse(n.stmt)]
    own = [n.id for n in cfg.nodes if n.stmt is not None and n.kind == "stmt" and
           f"{p[1]}._resolve_snrefs({cx})" in ast.unparse(n.stmt)]
    if setctx and own and f"if {cx}.diag_layer is None" in s and own[0] not in \
            cfg.reachable(0, blocked=[]) or (setctx and own):
        run.ok(R, "retarget_snrefs", "the target layer becomes the context before its own SNREFs "
               "are re-resolved", f.loc)
    else:
        run.violation(R, "retarget_snrefs", "context", "the context layer is not set before "
                      "re-resolving", f.loc)
    rec = [x for x in walk_no_nested(f.node) if isinstance(x, ast.Call) and call_name(x) ==
           "retarget_snrefs"]
    loops = [l for l in walk_no_nested(f.node) if isinstance(l, ast.For)]
    if rec and loops and [ast.unparse(a) for a in rec[0].args][1:] == [
            f"{ast.unparse(loops[0].target)}.layer", cx]:
        run.ok(R, "retarget_snrefs", "recurses into every parent layer with the same context "
               "(all ancestors are re-targeted)", f"{f.module.rel}:{rec[0].lineno}")
    else:
        run.violation(R, "retarget_snrefs", "no-recursion",
                      "the parents are not re-targeted recursively with the same context: "
                      "short-name references owned by indirect ancestors keep pointing into the "
                      "previous layer's view", f.loc)
    # a type test in front of the recursion names every kind of layer that has parents
    owners = sorted(c.name for c in prog.subclasses("DiagLayer", strict=True)
                    if prog.lookup(c, "parent_refs") is not None)
    if len(owners) < 3:
        raise AnalysisError(f"layer classes with parent_refs: {owners} (expected >= 3)")
    for r_ in rec:
        st_ = next((s_ for s_ in walk_no_nested(f.node) if isinstance(s_, ast.Expr) and
                    s_.value is r_), None)
        if st_ is None:
            continue
        for t, pol in cfg.branch_conditions(cfg.node_of(st_)):
            for c_ in ast.walk(t):
                if isinstance(c_, ast.Call) and call_name(c_) == "isinstance" and pol and \
                        len(c_.args) == 2 and ast.unparse(c_.args[0]) == p[1]:
                    named = [ast.unparse(e).split(".")[-1] for e in (
                        c_.args[1].elts if isinstance(c_.args[1], ast.Tuple) else [c_.args[1]])]
                    covered = {o for o in owners if any(
                        o == k or k in {b.name for b in prog.mro(prog.cls(o))} for k in named)}
                    missing = sorted(set(owners) - covered)
                    if missing:
                        run.violation(R, "retarget_snrefs", f"parents-of-{missing[0]}-skipped",
                                      f"the recursion into the parents only happens for "
                                      f"{named}; {missing} have PARENT-REFs too: ancestors that "
                                      "are reachable only through such a layer keep the "
                                      "short-name bindings of the previous resolution",
                                      f"{f.module.rel}:{c_.lineno}")
                    else:
                        run.ok(R, "retarget_snrefs", f"the type test covers {owners}",
                               f"{f.module.rel}:{c_.lineno}")
    common.g1_literal_attrs(prog, run, "C10.R6", ["odxtools/utils.py"])


def _g3(prog: Program, run: Run) -> None:
    common.g3_definite_assignment(prog, run, "C10.G3", [
        "odxtools/*.py", "odxtools/diaglayers/*.py", "odxtools/parameters/*.py",
        "odxtools/compumethods/*.py"])
