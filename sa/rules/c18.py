"""C18 — the comparison and listing tools report the true differences and counts."""
from __future__ import annotations

import ast
import copy
from typing import Dict, List, Optional, Set, Tuple

from ..cfg import CFG
from ..report import Run
from ..src import AnalysisError, FuncInfo, Program, call_name, stmt_key, walk_no_nested
from . import common

EXPLANATION = (
    "Structural rules over odxtools/cli: (R1) no if/elif chain repeats a normalised test (dead "
    "classification branch); (R2) literal attribute names of getattr/hasattr exist on the "
    "receiver's class hierarchy (typed through annotations); (R3) every comparison in "
    "Comparison.compare_parameters is a mirror pair (the same attribute path on param1 and "
    "param2, without defaulting operators) that reports those same two values, and the set of "
    "compared attributes covers the ones the property lists; (R4) the loop that classifies "
    "deleted services visits every service of the old layer; (R5) compare_services pairs "
    "request / positive / negative response parameters position by position in the order "
    "(new, old); (R6) the metrics table counts are computed from the layer being printed and "
    "nothing is memoised across calls.")
ASSUMPTIONS = [
    "metamorphic correctness over concrete edits is not executed; each rule is a necessary "
    "condition for 'exactly that kind of change for exactly that service'",
    "receiver types come from annotations; unresolved receivers fall back to 'some class of the "
    "package has the attribute'",
]

SCOPE = ["odxtools/cli/compare.py", "odxtools/cli/_print_utils.py", "odxtools/cli/list.py",
         "odxtools/cli/find.py", "odxtools/cli/decode.py"]

# attribute paths (relative to the parameter) that compare_parameters must compare
REQUIRED = {
    "byte_position": "byte position",
    "get_static_bit_length()": "bit length",
    "semantic": "semantic",
    "coded_value": "coded value",
    "diag_coded_type.base_data_type": "data type",
}


def _subst(e: ast.AST, a: str, b: str) -> str:
    e2 = copy.deepcopy(e)
    for n in ast.walk(e2):
        if isinstance(n, ast.Name) and n.id == a:
            n.id = b
    return ast.unparse(e2)


def check(prog: Program, run: Run) -> None:
    run.rule("C18.R1", "no if/elif chain in the tools repeats a test (a repeated test makes the "
             "later classification branch dead)", floor=5)
    run.rule("C18.R2", "getattr/hasattr with a literal name refers to an attribute that exists "
             "in the receiver's class hierarchy", floor=5)
    run.rule("C18.R3", "compare_parameters compares mirror pairs (same attribute of param1 and "
             "param2, no defaulting) and reports those two values; the attributes the property "
             "lists are all compared", floor=10)
    run.rule("C18.R4", "the old layer's services are all examined for deletion: no early exit "
             "from the loop that classifies deleted services", floor=1)
    run.rule("C18.R5", "compare_services pairs request, positive and negative response "
             "parameters of both services position by position", floor=3)
    run.rule("C18.R6", "the overview counts come from the layer being printed; no tool memoises "
             "results across calls", floor=5)
    run.rule("C18.R7", "services / parameters of the other layer are matched by comparing short "
             "names, never by a keyed NamedItemList lookup with a raw short name", floor=1)
    common.g6_lookup_by_short_name(prog, run, "C18.R7", SCOPE)
    common.g12_keys_are_not_names(prog, run, "C18.R7", SCOPE)
    run.rule("C18.R9", "what the overview counts was loaded faithfully: the NOT-INHERITED lists "
             "that decide which DOPs / services / tables a layer shows are parsed from the "
             "element paths they are written to (shared with C11.R7)", floor=5)
    from ..jinjamodel import TemplateModel
    from . import tagpaths
    tagpaths.check(prog, TemplateModel(prog.repo), run, "C18.R9",
                   only=lambda c: c == "ParentRef")
    run.rule("C18.R8", "the constant request prefix by which the compare tool recognises a renamed "
             "or re-added service covers every constant parameter and stops at the first "
             "non-constant one (shared with C06.R4)", floor=2)
    from . import c06
    common.run_as(run, "C06.R4", "C18.R8", lambda r: c06._const_prefix(prog, r))
    run.rule("C18.R10", "the `Bit Length` compare_parameters reports comes from "
             "get_static_bit_length(); for a parameter whose DOP is a structure that is the "
             "maximum extent any of its parameters reaches, whatever order they are listed in "
             "(shared with C08)", floor=3)
    from . import c08
    c08._composite_length(prog, run, "C18.R10")
    common.g2_repeated_tests(prog, run, "C18.R1", SCOPE)
    common.g1_literal_attrs(prog, run, "C18.R2", SCOPE)
    _compare_parameters(prog, run)
    _layer_loops(prog, run)
    _compare_services(prog, run)
    common.g4_no_stale_memo(prog, run, "C18.R6", ["odxtools/cli/*.py"])
    _metrics(prog, run)


# ---------------------------------------------------------------------- R3
def _compare_parameters(prog: Program, run: Run) -> None:
    R = "C18.R3"
    f = prog.func("Comparison.compare_parameters")
    p1, p2 = f.params()[1], f.params()[2]
    # aliases bound by walrus: dop_1 := getattr(param1, "dop", None)
    mirror: Dict[str, str] = {p1: p2}
    for x in walk_no_nested(f.node):
        if isinstance(x, ast.NamedExpr) and isinstance(x.target, ast.Name):
            pass
    walr = [x for x in walk_no_nested(f.node) if isinstance(x, ast.NamedExpr)]
    for a in walr:
        for b in walr:
            if a is not b and _subst(a.value, p1, p2) == ast.unparse(b.value) and \
                    ast.unparse(a.value) != ast.unparse(b.value):
                mirror[a.target.id] = b.target.id
    rev = {v: k for k, v in mirror.items()}

    def mirrored(e: ast.AST) -> Optional[str]:
        e2 = copy.deepcopy(e)
        names = {n.id for n in ast.walk(e2) if isinstance(n, ast.Name)}
        if not names & set(mirror):
            return None
        if names & set(rev):
            return None
        for n in ast.walk(e2):
            if isinstance(n, ast.Name) and n.id in mirror:
                n.id = mirror[n.id]
        return ast.unparse(e2)

    compared: Set[str] = set()
    n_cmp = 0
    for x in walk_no_nested(f.node):
        if not (isinstance(x, ast.Compare) and len(x.ops) == 1 and isinstance(
                x.ops[0], (ast.NotEq, ast.Eq))):
            continue
        l, r = x.left, x.comparators[0]
        ln = {n.id for n in ast.walk(l) if isinstance(n, ast.Name)}
        rn = {n.id for n in ast.walk(r) if isinstance(n, ast.Name)}
        if not ((ln & set(mirror)) or (rn & set(mirror)) or (ln & set(rev)) or (rn & set(rev))):
            continue
        if isinstance(r, ast.Constant) or isinstance(l, ast.Constant):
            continue
        n_cmp += 1
        where = f"{f.module.rel}:{x.lineno}"
        m = mirrored(l)
        if m is None or m != ast.unparse(r):
            run.violation(R, "Comparison.compare_parameters",
                          "not-a-mirror-pair:" + " ".join(ast.unparse(x).split())[:70],
                          f"`{ast.unparse(x)}` does not compare the same attribute of the two "
                          "parameters", where, ast.unparse(x))
            continue
        # no defaulting (`x or 0`) that conflates an unspecified value with a concrete one
        defaulted = [y for y in ast.walk(l) if isinstance(y, ast.BoolOp) and isinstance(y.op, ast.Or)]
        # `x or 0` is harmless where None *means* 0 (bit_position); it hides a change for the
        # attributes where "unspecified" is a distinct value
        def _req(y):
            t = ast.unparse(y.values[0])
            return any(t == f"{a}.{p}" for a in mirror for p in REQUIRED)
        if any(_req(y) for y in defaulted):
            run.violation(R, "Comparison.compare_parameters",
                          "defaulting-hides-change:" + " ".join(ast.unparse(l).split())[:60],
                          f"`{ast.unparse(x)}` replaces an unspecified value by a default before "
                          "comparing: a change between 'unspecified' and that default is reported "
                          "as no change", where, ast.unparse(x))
            continue
        path = ast.unparse(l)
        if defaulted:
            path = ast.unparse(defaulted[0].values[0])
        for a in mirror:
            if path.startswith(a + "."):
                compared.add(path[len(a) + 1:])
        run.ok(R, "compare_parameters", f"mirror comparison of `{path}`", where)
    # each `if A != B: append_list(label, A', B')` reports the compared values
    for x in walk_no_nested(f.node):
        if not isinstance(x, ast.If):
            continue
        cmps = [c for c in ast.walk(x.test) if isinstance(c, ast.Compare) and len(c.ops) == 1 and
                isinstance(c.ops[0], ast.NotEq) and mirrored(c.left) == ast.unparse(
                    c.comparators[0])]
        if not cmps:
            continue
        for st in x.body:
            if isinstance(st, ast.Expr) and isinstance(st.value, ast.Call) and call_name(
                    st.value) == "append_list" and len(st.value.args) == 3:
                a1, a2 = st.value.args[1], st.value.args[2]
                if isinstance(a1, ast.Constant) and isinstance(a2, ast.Constant):
                    continue
                m = mirrored(a1)
                def _core(e: ast.AST) -> str:
                    while isinstance(e, ast.BoolOp) and isinstance(e.op, ast.Or):
                        e = e.values[0]
                    return ast.unparse(e)
                base_ok = any(_core(c.left) in ast.unparse(a1) for c in cmps)
                if m is None or m != ast.unparse(a2):
                    run.violation(R, "Comparison.compare_parameters",
                                  "reports-other-values:" + " ".join(ast.unparse(a1).split())[:60],
                                  f"`{stmt_key(st)}` does not report the same attribute of both "
                                  "parameters", f"{f.module.rel}:{st.lineno}", stmt_key(st))
                elif not base_ok:
                    run.violation(R, "Comparison.compare_parameters",
                                  "reports-uncompared-attribute:" + " ".join(
                                      ast.unparse(a1).split())[:60],
                                  f"`{stmt_key(st)}` reports `{ast.unparse(a1)}` under a test "
                                  f"that compared `{ast.unparse(cmps[0].left)}`",
                                  f"{f.module.rel}:{st.lineno}", stmt_key(st))
                else:
                    run.ok(R, "compare_parameters", f"reports `{ast.unparse(a1)}` of both "
                           "parameters", f"{f.module.rel}:{st.lineno}")
    for path, what in REQUIRED.items():
        if path in compared:
            run.ok(R, "compare_parameters", f"{what} (`{path}`) is compared", f.loc)
        else:
            run.violation(R, "Comparison.compare_parameters", f"not-compared-{path}",
                          f"the {what} of the two parameters (`{path}`) is never compared: such "
                          "a change is reported as no change", f.loc)
    # the linked DOP
    if any(isinstance(x, ast.Compare) and isinstance(x.ops[0], ast.NotEq) and isinstance(
            x.left, ast.Name) and x.left.id in mirror and x.left.id != p1 for x in
           walk_no_nested(f.node)):
        run.ok(R, "compare_parameters", "linked DOP objects are compared", f.loc)
    else:
        run.violation(R, "Comparison.compare_parameters", "not-compared-dop",
                      "the linked DOP of the two parameters is never compared", f.loc)
    if n_cmp < 8:
        raise AnalysisError("compare_parameters: fewer than 8 attribute comparisons recognised")


# ---------------------------------------------------------------------- R4
def _layer_loops(prog: Program, run: Run) -> None:
    R = "C18.R4"
    f = prog.func("Comparison.compare_diagnostic_layers")
    d1, d2 = f.params()[1], f.params()[2]
    # the statement that records a deleted service
    dels = []
    for x in walk_no_nested(f.node):
        if isinstance(x, ast.Call) and call_name(x) == "append" and "deleted_services" in \
                ast.unparse(x.func):
            dels.append(x)
        if isinstance(x, ast.Call) and call_name(x) == "append" and ast.unparse(
                x.func).startswith("deleted_"):
            dels.append(x)
    if not dels:
        run.violation(R, "Comparison.compare_diagnostic_layers", "no-deleted-classification",
                      "no statement records deleted services", f.loc)
        return
    loops = [x for x in walk_no_nested(f.node) if isinstance(x, ast.For)]
    for d in dels:
        enclosing = [l for l in loops if any(y is d for y in ast.walk(l))]
        old_loops = [l for l in enclosing if ast.unparse(l.iter).replace("enumerate(", "").rstrip(
            ")") == f"{d2}.services"]
        if not old_loops:
            run.violation(R, "Comparison.compare_diagnostic_layers", "deleted-not-per-old-service",
                          "deleted services are not determined by iterating the old layer's "
                          "services", f"{f.module.rel}:{d.lineno}")
            continue
        lp = old_loops[-1]
        # (a) no early exit that skips later services
        exits = []
        for y in walk_no_nested(lp):
            if isinstance(y, (ast.Break, ast.Return)):
                # a break belongs to the innermost loop
                inner = [l for l in loops if l is not lp and any(z is y for z in ast.walk(l)) and
                         any(z is l for z in ast.walk(lp))]
                if isinstance(y, ast.Return) or not inner:
                    exits.append(y)
        # (b) a `continue` before the deleted check skips this service's check
        conts = []
        for y in walk_no_nested(lp):
            if isinstance(y, ast.Continue) and y.lineno < d.lineno:
                inner = [l for l in loops if l is not lp and any(z is y for z in ast.walk(l)) and
                         any(z is l for z in ast.walk(lp))]
                if not inner:
                    conts.append(y)
        if exits or conts:
            for y in exits + conts:
                run.violation(R, "Comparison.compare_diagnostic_layers",
                              f"early-exit-{type(y).__name__.lower()}",
                              f"`{type(y).__name__.lower()}` at line {y.lineno} leaves the loop "
                              f"over {d2}.services before every service of the old layer has been "
                              "checked for deletion: a deleted service further down the list is "
                              "not reported", f"{f.module.rel}:{y.lineno}")
        else:
            run.ok(R, "compare_diagnostic_layers", "the loop that records deleted services "
                   "visits every service of the old layer", f"{f.module.rel}:{lp.lineno}")
        # (c) nesting under the loop over the new layer's services
        outer_new = [l for l in enclosing if ast.unparse(l.iter) == f"{d1}.services"]
        if outer_new:
            run.violation(R, "Comparison.compare_diagnostic_layers", "deleted-check-nested",
                          f"the deleted-service check depends only on {d2} but is nested in the "
                          f"loop over {d1}.services: if the new layer has no services at all, "
                          "no deletion is ever reported", f"{f.module.rel}:{lp.lineno}")
        # (d) the condition: name not in new names and prefix not in new prefixes
        break


# ---------------------------------------------------------------------- R5
def _compare_services(prog: Program, run: Run) -> None:
    R = "C18.R5"
    f = prog.func("Comparison.compare_services")
    s1, s2 = f.params()[1], f.params()[2]
    calls = [x for x in walk_no_nested(f.node) if isinstance(x, ast.Call) and call_name(x) ==
             "compare_parameters"]
    kinds = {"request": False, "positive_responses": False, "negative_responses": False}
    loops = [x for x in walk_no_nested(f.node) if isinstance(x, ast.For)]
    for c in calls:
        if len(c.args) != 2 or not all(isinstance(a, ast.Name) for a in c.args):
            run.violation(R, "Comparison.compare_services", "call-shape",
                          f"`{ast.unparse(c)}` is not called with the two paired parameters",
                          f"{f.module.rel}:{c.lineno}")
            continue
        a, b = c.args[0].id, c.args[1].id
        enc = [l for l in loops if any(y is c for y in ast.walk(l))]
        zipped: Set[int] = set()

        def source(var: str) -> Optional[Tuple[ast.For, str]]:
            for l in enc:
                t = l.target
                names = [n.id for n in ast.walk(t) if isinstance(n, ast.Name)]
                if var in names:
                    # `for a, b in zip(X, Y)` (also under enumerate): a ranges over X, b over Y
                    it, tg = l.iter, t
                    if isinstance(it, ast.Call) and call_name(it) == "enumerate" and it.args and \
                            isinstance(tg, ast.Tuple) and len(tg.elts) == 2:
                        it, tg = it.args[0], tg.elts[1]
                    if isinstance(it, ast.Call) and call_name(it) == "zip" and isinstance(
                            tg, ast.Tuple) and len(tg.elts) == len(it.args):
                        for e_, a_ in zip(tg.elts, it.args):
                            if isinstance(e_, ast.Name) and e_.id == var:
                                zipped.add(id(l))
                                return l, ast.unparse(a_)
                    return l, ast.unparse(l.iter)
            return None
        sa_, sb_ = source(a), source(b)
        if sa_ is None or sb_ is None:
            run.violation(R, "Comparison.compare_services", "unpaired-arguments",
                          f"`{ast.unparse(c)}`: arguments are not loop variables over the two "
                          "services' parameter lists", f"{f.module.rel}:{c.lineno}")
            continue
        ia, ib = sa_[1], sb_[1]
        # resolve response1/response2 loop variables one level up
        def expand(it: str) -> str:
            for l in enc:
                t = l.target
                names = [n.id for n in ast.walk(t) if isinstance(n, ast.Name)]
                for nm in names:
                    if f"({nm}." in it or it.startswith(f"enumerate({nm}."):
                        src = ast.unparse(l.iter)
                        return it.replace(f"{nm}.", src.replace("enumerate(", "").rstrip(")") +
                                          "[i].")
            return it
        ea, eb = expand(ia), expand(ib)
        if ea.replace(s1, "S") != eb.replace(s2, "S") or s1 not in ea or s2 not in eb:
            run.violation(R, "Comparison.compare_services", "not-mirrored-lists",
                          f"`{ast.unparse(c)}` pairs `{ia}` with `{ib}`: these are not the same "
                          "parameter list of the new and the old service (in that order)",
                          f"{f.module.rel}:{c.lineno}")
            continue
        # paired by equal index
        idx_ok = False
        for y in walk_no_nested(f.node):
            if isinstance(y, ast.If) and any(z is c for z in ast.walk(y)):
                t = y.test
                if isinstance(t, ast.Compare) and isinstance(t.ops[0], ast.Eq):
                    na = [n.id for n in ast.walk(sa_[0].target) if isinstance(n, ast.Name)]
                    nb = [n.id for n in ast.walk(sb_[0].target) if isinstance(n, ast.Name)]
                    lt, rt = ast.unparse(t.left), ast.unparse(t.comparators[0])
                    if (lt in na and rt in nb) or (lt in nb and rt in na):
                        idx_ok = True
        if sa_[0] is sb_[0] and ("zip(" in ia or id(sa_[0]) in zipped):
            idx_ok = True
        if not idx_ok:
            run.violation(R, "Comparison.compare_services", "not-paired-by-position",
                          f"`{ast.unparse(c)}` is not restricted to parameters at the same "
                          "position", f"{f.module.rel}:{c.lineno}")
            continue
        # nothing but the lengths of the two lists (and the position test) decides whether the
        # comparison happens: equal REFERENCES do not mean equal responses when the two services
        # come from two databases
        cst = next((s_ for s_ in walk_no_nested(f.node) if isinstance(s_, ast.stmt) and not
                    isinstance(s_, (ast.If, ast.For, ast.While, ast.With, ast.Try,
                                    ast.FunctionDef)) and any(z is c for z in ast.walk(s_))), None)
        foreign = None
        if cst is not None:
            ccfg = CFG(f.node)
            loopvars = {n.id for l in enc for n in ast.walk(l.target)
                        if isinstance(n, ast.Name)}

            def allowed(t: ast.AST) -> bool:
                if isinstance(t, ast.BoolOp):
                    return all(allowed(v) for v in t.values)
                if isinstance(t, ast.UnaryOp) and isinstance(t.op, ast.Not):
                    return allowed(t.operand)
                names = {n.id for n in ast.walk(t) if isinstance(n, ast.Name)}
                if names and names <= loopvars:
                    return True  # position / loop-variable tests
                if isinstance(t, ast.Compare) and len(t.ops) == 1:
                    if isinstance(t.ops[0], (ast.Is, ast.IsNot)):
                        return True
                    sides = [t.left, t.comparators[0]]
                    if all(isinstance(s_, ast.Call) and call_name(s_) == "len" for s_ in sides):
                        return True
                return False
            for t, pol in ccfg.branch_conditions(ccfg.node_of(cst)):
                if allowed(t):
                    continue
                foreign = (t, pol)
                break
        if foreign is not None:
            run.violation(R, "Comparison.compare_services", "comparison-skipped:" +
                          ast.unparse(foreign[0])[:50],
                          f"`{ast.unparse(c)}` only runs when `{ast.unparse(foreign[0])}` is "
                          f"{foreign[1]}: parameter changes of objects for which that test "
                          "decides otherwise are never looked at (equal references in two "
                          "databases still point to different objects)",
                          f"{f.module.rel}:{c.lineno}", ast.unparse(foreign[0]))
            continue
        for k in kinds:
            if k in ea:
                kinds[k] = True
        run.ok(R, "compare_services", f"`{ia}` paired with `{ib}` by position",
               f"{f.module.rel}:{c.lineno}")
    for k, v in kinds.items():
        if not v:
            run.violation(R, "Comparison.compare_services", f"{k}-not-compared",
                          f"the parameters of the services' {k} are never compared: a parameter "
                          "change there is reported as no change", f.loc)


# ---------------------------------------------------------------------- R6
def _metrics(prog: Program, run: Run) -> None:
    R = "C18.R6"
    f = prog.func("odxtools.cli._print_utils:print_dl_metrics")
    loops = [x for x in walk_no_nested(f.node) if isinstance(x, ast.For) and ast.unparse(
        x.iter) == f.params()[0]]
    if not loops:
        run.violation(R, "print_dl_metrics", "no-loop", "the metrics table does not iterate over "
                      "the given layers", f.loc)
        return
    lp = loops[0]
    var = lp.target.id if isinstance(lp.target, ast.Name) else "?"
    rows = [x for x in ast.walk(lp) if isinstance(x, ast.Call) and call_name(x) == "add_row"]
    if not rows:
        run.violation(R, "print_dl_metrics", "no-row", "no row is added per layer", f.loc)
        return
    # resolve local aliases inside the loop body to expressions over `var`
    defs: Dict[str, ast.AST] = {}
    for x in ast.walk(lp):
        if isinstance(x, (ast.Assign, ast.AnnAssign)):
            t = x.targets[0] if isinstance(x, ast.Assign) else x.target
            if isinstance(t, ast.Name) and x.value is not None:
                defs[t.id] = x.value

    def resolve(e: ast.AST, depth: int = 0) -> str:
        e2 = copy.deepcopy(e)
        if depth > 4:
            return ast.unparse(e2)

        class Tr(ast.NodeTransformer):
            def visit_Name(self, n):  # noqa: N802
                if n.id in defs and n.id != var:
                    return ast.parse(resolve(defs[n.id], depth + 1), mode="eval").body
                return n
        return ast.unparse(Tr().visit(e2))
    want = {
        "services": ("number of services", [f"{var}.services"]),
        "dops": ("number of data objects", [f"{var}.diag_data_dictionary_spec.data_object_props"]),
        "comparams": ("number of communication parameters",
                      [f"{var}.comparam_refs", f"getattr({var}, 'comparam_refs', [])"]),
    }
    # counts computed by a module-level helper `a, b, c = helper(variant)` with a single
    # `return (x, y, z)` are inlined
    for x in ast.walk(lp):
        if isinstance(x, ast.Assign) and isinstance(x.targets[0], ast.Tuple) and isinstance(
                x.value, ast.Call) and isinstance(x.value.func, ast.Name):
            h = prog.module_func(f.module, x.value.func.id)
            if h is not None and len(x.value.args) == 1:
                rets = [r for r in walk_no_nested(h.node) if isinstance(r, ast.Return)]
                if len(rets) == 1 and isinstance(rets[0].value, ast.Tuple) and len(
                        rets[0].value.elts) == len(x.targets[0].elts) and len(h.node.body) <= 4:
                    hd: Dict[str, ast.AST] = {}
                    for y in walk_no_nested(h.node):
                        if isinstance(y, ast.Assign) and isinstance(y.targets[0], ast.Name):
                            hd[y.targets[0].id] = y.value
                    for t, e in zip(x.targets[0].elts, rets[0].value.elts):
                        if isinstance(t, ast.Name):
                            e2 = copy.deepcopy(e)
                            for n in ast.walk(e2):
                                if isinstance(n, ast.Name) and n.id == h.params()[0]:
                                    n.id = ast.unparse(x.value.args[0])
                            defs[t.id] = e2
    args = [resolve(a) for a in rows[0].args]
    unresolved = [a for a in args if not any(var in a for _ in [0])]
    for key, (what, sources) in want.items():
        hit = [a for a in args if any(s in a for s in sources) and "len(" in a]
        if not hit and any(var not in a and "len(" not in a and a not in ("''", '""')
                           for a in args[2:]):
            run.note(f"C18.R6: {what}: row arguments {args} could not be traced back to the "
                     "printed layer (computed by a helper that is not a plain tuple return); "
                     "not decided")
            continue
        if hit:
            run.ok(R, "print_dl_metrics", f"{what} = len(…) of `{sources[0]}` of the printed "
                   "layer", f"{f.module.rel}:{rows[0].lineno}")
        else:
            run.violation(R, "print_dl_metrics", f"count-{key}",
                          f"the {what} is not len() of `{sources[0]}` of the layer being "
                          f"printed (row arguments: {args})", f"{f.module.rel}:{rows[0].lineno}")
