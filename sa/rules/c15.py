"""C15 — communication parameters resolve to the most specific definition."""
from __future__ import annotations

import ast
from typing import Dict, List, Optional, Set, Tuple

from ..cfg import CFG, symbolic_paths
from ..exprnorm import normalize
from ..report import Run
from ..src import AnalysisError, FuncInfo, Program, call_name, stmt_key, walk_no_nested
from . import common

EXPLANATION = (
    "Structural rules over HierarchyElement._compute_available_commmunication_parameters, "
    "get_comparam, the typed accessors and ComparamInstance.get_value/get_subvalue: the "
    "override key is (spec id, protocol) on both the inherited and the local side, parents are "
    "merged in ascending priority before the local definitions, the recursion goes through the "
    "parents' own computed view; the lookup filters by name and by protocol *name* and prefers "
    "the protocol-specific definition; the default fall-back is taken exactly for the marker "
    "the parser stores for an omitted value (writer/reader agreement); each typed accessor "
    "reads the parameter / sub-parameter it is named for and converts it as specified.")
ASSUMPTIONS = [
    "the comparam names of the accessor table are the ISO 15765-2 / ISO 13400-2 names used by "
    "the shipped comparam subsets; values for concrete hierarchies are not computed",
]

ACCESSORS: Dict[str, Tuple[str, Optional[str], str]] = {
    # method -> (comparam, sub-parameter or None, conversion)
    "get_can_receive_id": ("CP_UniqueRespIdTable", "CP_CanPhysReqId", "int"),
    "get_can_send_id": ("CP_UniqueRespIdTable", "CP_CanRespUSDTId", "int"),
    "get_can_func_req_id": ("CP_CanFuncReqId", None, "int"),
    "get_can_baudrate": ("CP_Baudrate", None, "int"),
    "get_can_fd_baudrate": ("CP_CANFDBaudrate", None, "int"),
    "get_max_can_payload_size": ("CP_CANFDTxMaxDataLength", None, "regex"),
    "get_doip_logical_ecu_address": ("CP_UniqueRespIdTable", "CP_DoIPLogicalEcuAddress", "int"),
    "get_doip_logical_gateway_address": ("CP_DoIPLogicalGatewayAddress", None, "int"),
    "get_doip_logical_tester_address": ("CP_DoIPLogicalTesterAddress", None, "int"),
    "get_doip_logical_functional_address": ("CP_DoIPLogicalFunctionalAddress", None, "int"),
    "get_doip_routing_activation_timeout": ("CP_DoIPRoutingActivationTimeout", None, "us"),
    "get_doip_routing_activation_type": ("CP_DoIPRoutingActivationType", None, "int"),
    "get_tester_present_time": ("CP_TesterPresentTime", None, "us"),
}


def check(prog: Program, run: Run) -> None:
    run.rule("C15.R1", "comparams are overridden per (spec id, protocol): parents in ascending "
             "priority through their own computed view, then the local definitions", floor=4)
    run.rule("C15.R2", "get_comparam filters by name and protocol name and returns the "
             "protocol-specific definition before the generic one", floor=3)
    run.rule("C15.R3", "values and sub-values fall back to the specification's default exactly "
             "for the marker the parser stores for an omitted value; the sub-value index is the "
             "position of the name in the specification", floor=3)
    run.rule("C15.R4", "each typed accessor reads the parameter (and sub-parameter) it is named "
             "for, forwards the protocol and converts as specified", floor=13)
    run.rule("C15.G1", "literal attribute names used for the raw comparam/parent lists exist",
             floor=1)
    run.rule("C15.G7", "the comparam parsers read every qualifier element on its own: what feeds "
             "one field is not skipped because another field's element is present", floor=4)
    _merge(prog, run)
    common.g7_independent_elements(prog, run, "C15.G7", [
        "odxtools/comparam*.py", "odxtools/complexcomparam.py", "odxtools/basecomparam.py",
        "odxtools/parentref.py", "odxtools/diaglayers/*raw.py"])
    _lookup(prog, run)
    _defaults(prog, run)
    _subparam_order(prog, run)
    _subvalue_order(prog, run)
    _accessors(prog, run)
    # (HierarchyElement.protocols reads getattr(self, "parent_refs", []) too and thereby skips
    # the parents of a PROTOCOL layer; no property ranges over .protocols, so only the helper
    # of the comparam merge is held to this)
    common.g1_literal_attrs(prog, run, "C15.G1", ["odxtools/diaglayers/hierarchyelement.py"],
                            forwarded_in=("_get_parent_refs_sorted_by_priority",
                                          "_compute_available_commmunication_parameters"))


def _merge(prog: Program, run: Run) -> None:
    R = "C15.R1"
    f = prog.func("HierarchyElement._compute_available_commmunication_parameters")
    fn = f.node
    C = "HierarchyElement._compute_available_commmunication_parameters"
    cfg = CFG(fn)
    loops = [x for x in walk_no_nested(fn) if isinstance(x, ast.For)]
    pl = [l for l in loops if isinstance(l.iter, ast.Call) and call_name(l.iter) ==
          "_get_parent_refs_sorted_by_priority"]
    if len(pl) != 1:
        raise AnalysisError("comparam merge: parent loop not found")
    pl = pl[0]
    if common.parents_descending(prog, pl.iter) is False:
        run.ok(R, C, "parents merged from low to high priority (closer layers override)",
               f"{f.module.rel}:{pl.lineno}")
    else:
        run.violation(R, C, "parents-descending",
                      "the parents are not merged from low to high priority (evaluated through "
                      "the helper's sorted(..., reverse=...) and its defaults), so the "
                      "lowest-priority parent's definition wins", f"{f.module.rel}:{pl.lineno}", stmt_key(pl))
    stores = [x for x in walk_no_nested(fn) if isinstance(x, ast.Assign) and isinstance(
        x.targets[0], ast.Subscript) and isinstance(x.targets[0].value, ast.Name)]
    if len(stores) < 2:
        raise AnalysisError("comparam merge: expected an inherited and a local store")
    dname = stores[0].targets[0].value.id  # type: ignore[attr-defined]
    keys = []
    for s in stores:
        k = s.targets[0].slice  # type: ignore[attr-defined]
        v = ast.unparse(s.value)
        if isinstance(k, ast.Tuple) and [ast.unparse(e) for e in k.elts] == [
                f"{v}.spec_ref.ref_id", f"{v}.protocol_snref"]:
            run.ok(R, C, f"`{stmt_key(s)}`: keyed by (spec id, protocol) of the stored instance",
                   f"{f.module.rel}:{s.lineno}")
        else:
            run.violation(R, C, "override-key:" + ast.unparse(k)[:50],
                          f"`{stmt_key(s)}` is not keyed by (instance.spec_ref.ref_id, "
                          "instance.protocol_snref): definitions for different protocols (or "
                          "different parameters) override each other",
                          f"{f.module.rel}:{s.lineno}", stmt_key(s))
        keys.append(ast.unparse(k))
    inh = [s for s in stores if any(z is s for z in ast.walk(pl))]
    loc = [s for s in stores if not any(z is s for z in ast.walk(pl))]
    if not inh or not loc:
        run.violation(R, C, "missing-side", "either the inherited or the local definitions are "
                      "not entered into the result", f.loc)
        return
    # every inherited / local definition is entered: what overrides what is decided by the key
    # (spec id AND protocol) alone, never by a filter in front of the store
    for s in inh + loc:
        vn = {y.id for y in ast.walk(s.value) if isinstance(y, ast.Name)}
        conds = [t for t, _p in cfg.branch_conditions(cfg.node_of(s)) if any(
            isinstance(y, ast.Name) and y.id in vn for y in ast.walk(t))]
        if conds:
            run.violation(R, C, "store-filtered",
                          f"`{stmt_key(s)}` only happens under `{ast.unparse(conds[0])}`: "
                          "definitions are dropped by a test that does not look at the whole "
                          "key (parameter AND protocol), e.g. a local definition for one "
                          "protocol discards the inherited ones for all others",
                          f"{f.module.rel}:{s.lineno}", stmt_key(s))
        else:
            run.ok(R, C, f"`{stmt_key(s)}` happens for every instance of the list",
                   f"{f.module.rel}:{s.lineno}")
    # recursion through the parent's computed view
    il = [l for l in loops if any(z is inh[0] for z in ast.walk(l)) and l is not pl]
    src = ast.unparse(il[0].iter) if il else ""
    if src.endswith("._compute_available_commmunication_parameters()") or src.endswith(
            ".comparam_refs"):
        run.ok(R, C, "inherited parameters come from the parent's own computed view",
               f"{f.module.rel}:{il[0].lineno}")
    else:
        run.violation(R, C, "parent-view",
                      f"inherited parameters are taken from `{src}` instead of the parent's "
                      "computed view (grand-parents are lost)", f.loc)
    # local after parents
    ll = [l for l in loops if any(z is loc[0] for z in ast.walk(l))]
    if ll and cfg.dominates(cfg.node_of(pl), cfg.node_of(ll[0])) and cfg.node_of(pl) not in \
            cfg.reachable(cfg.node_of(ll[0])):
        lsrc = ast.unparse(ll[0].iter)
        if "comparam_refs" in lsrc and ("hierarchy_element_raw" in lsrc or "diag_layer_raw" in
                                        lsrc):
            run.ok(R, C, "local definitions (raw comparam_refs) are entered last",
                   f"{f.module.rel}:{ll[0].lineno}")
        else:
            run.violation(R, C, "local-source",
                          f"the local definitions are read from `{lsrc}`, not from the raw "
                          "layer's comparam_refs", f"{f.module.rel}:{ll[0].lineno}")
    else:
        run.violation(R, C, "local-not-last",
                      "the local definitions are not entered after the inherited ones", f.loc)
    rets = [ast.unparse(r.value) for r in walk_no_nested(fn) if isinstance(r, ast.Return)]
    if rets == [f"list({dname}.values())"]:
        run.ok(R, C, "returns the merged instances", f.loc)
    else:
        run.violation(R, C, "return", f"returns {rets}", f.loc)
    # the public property
    p = prog.func("HierarchyElement.comparam_refs")
    fi = prog.func("HierarchyElement._finalize_init")
    ok = [ast.unparse(r.value) for r in walk_no_nested(p.node) if isinstance(r, ast.Return)] == [
        "self._comparam_refs"] and any(
            isinstance(x, ast.Assign) and ast.unparse(x.targets[0]) == "self._comparam_refs" and
            "_compute_available_commmunication_parameters()" in ast.unparse(x.value)
            for x in walk_no_nested(fi.node))
    if ok:
        run.ok(R, "HierarchyElement.comparam_refs", "public view = merged instances", p.loc)
    else:
        run.violation(R, "HierarchyElement.comparam_refs", "view",
                      "comparam_refs is not the merged list computed at load time", p.loc)


def _lookup(prog: Program, run: Run) -> None:
    R = "C15.R2"
    f = prog.func("HierarchyElement.get_comparam")
    fn = f.node
    C = "HierarchyElement.get_comparam"
    # the look-up is total: several applicable definitions are ranked, not rejected
    rs = [x for x in walk_no_nested(fn) if isinstance(x, ast.Raise) or (
        isinstance(x, ast.Expr) and isinstance(x.value, ast.Call) and call_name(x.value) in (
            "odxraise", "odxassert"))]
    if rs:
        run.violation(R, C, "lookup-raises",
                      f"`{stmt_key(rs[0])}`: get_comparam reports an error instead of returning "
                      "the most specific definition (protocol-specific before generic) -- a "
                      "layer that sees both can no longer be queried for that protocol",
                      f"{f.module.rel}:{rs[0].lineno}", stmt_key(rs[0]))
    else:
        run.ok(R, C, "the look-up never raises: it returns a definition or None", f.loc)
    name_p = f.params()[1]
    prot_p = "protocol"
    # protocol_name := protocol.short_name if Protocol else protocol
    pn = None
    for x in walk_no_nested(fn):
        if isinstance(x, ast.Assign) and ast.unparse(x.value) == f"{prot_p}.short_name" and \
                isinstance(x.targets[0], ast.Name):
            pn = x.targets[0].id
    if pn is None:
        run.violation(R, C, "protocol-object", "a Protocol object passed as `protocol` is not "
                      "reduced to its short name", f.loc)
        return
    comps = [x for x in walk_no_nested(fn) if isinstance(x, (ast.ListComp, ast.GeneratorExp))]
    name_f = False
    prot_f = False
    for c in comps:
        for g in c.generators:
            v = ast.unparse(g.target)
            for t in g.ifs:
                s = ast.unparse(t)
                if s == f"{v}.short_name == {name_p}":
                    name_f = True
                if isinstance(t, ast.Compare) and ast.unparse(t.left) == f"{v}.protocol_snref":
                    rhs = t.comparators[0]
                    elts = {ast.unparse(e) for e in rhs.elts} if isinstance(
                        rhs, (ast.Tuple, ast.List, ast.Set)) else {ast.unparse(rhs)}
                    if elts == {"None", pn}:
                        prot_f = True
                    elif prot_p in elts and pn not in elts:
                        run.violation(R, C, "protocol-filter-object",
                                      f"`{s}` compares the protocol short-name reference with the "
                                      "`protocol` argument itself: when a Protocol object is "
                                      "passed no protocol-specific definition ever matches",
                                      f"{f.module.rel}:{t.lineno}", s)
                        prot_f = None  # type: ignore[assignment]
    if name_f:
        run.ok(R, C, "candidates filtered by the parameter's short name", f.loc)
    else:
        run.violation(R, C, "name-filter", "candidates are not filtered by short name", f.loc)
    if prot_f:
        run.ok(R, C, f"candidates filtered by protocol_snref in (None, {pn})", f.loc)
    elif prot_f is False:
        run.violation(R, C, "protocol-filter", "candidates are not filtered by "
                      f"protocol_snref in (None, {pn})", f.loc)
    # specific before generic
    cps = None
    rets = [r for r in walk_no_nested(fn) if isinstance(r, ast.Return) and r.value is not None and
            isinstance(r.value, ast.Subscript)]
    specific = False
    for x in walk_no_nested(fn):
        if isinstance(x, ast.Call) and call_name(x) in ("sort", "sorted"):
            ks = [k for k in x.keywords if k.arg == "key"]
            if ks and "protocol_snref is None" in ast.unparse(ks[0].value):
                specific = True
            if ks and "protocol_snref is not None" in ast.unparse(ks[0].value) and any(
                    k.arg == "reverse" and ast.unparse(k.value) == "True" for k in x.keywords):
                specific = True
    # alternative idiom: look for the specific ones first, fall back to generic
    txt = ast.unparse(fn)
    if f"protocol_snref == {pn}" in txt and "protocol_snref is None" in txt:
        specific = True
    if specific:
        run.ok(R, C, "protocol-specific definitions are preferred over generic ones", f.loc)
    else:
        run.violation(R, C, "generic-before-specific",
                      "when a layer has a generic and a protocol-specific definition of the same "
                      "parameter, get_comparam(name, protocol=p) returns whichever was inserted "
                      "first (dictionary order), not the protocol-specific one", f.loc)


def _eval_missing(test: ast.AST, var: str, marker) -> Optional[bool]:
    """Value of ``test`` when ``var`` holds ``marker``; sub-tests that do not mention only var
    are unknown (None)."""
    if isinstance(test, ast.BoolOp):
        vals = [_eval_missing(v, var, marker) for v in test.values]
        if isinstance(test.op, ast.And):
            if any(v is False for v in vals):
                return False
            return True if all(v is True or v is None for v in vals) else None
        if any(v is True for v in vals):
            return True
        return False if all(v is False for v in vals) else None
    if isinstance(test, ast.UnaryOp) and isinstance(test.op, ast.Not):
        v = _eval_missing(test.operand, var, marker)
        return None if v is None else not v
    names = {n.id for n in ast.walk(test) if isinstance(n, ast.Name)}
    attrs = ast.unparse(test)
    if var not in attrs:
        return None
    try:
        code = compile(ast.Expression(body=_subst_var(test, var)), "<t>", "eval")
        safe = {"isinstance": isinstance, "str": str, "len": len, "bool": bool, "int": int,
                "float": float, "bytes": bytes, "list": list}
        # constant folding only: the test mentions nothing but the variable and these names
        var_names = {n.id for n in ast.walk(ast.parse(var, mode="eval")) if isinstance(n, ast.Name)}
        if names - var_names - set(safe):
            return None
        return bool(eval(code, {"__builtins__": safe}, {"_V": marker}))
    except Exception:
        return None


def _subst_var(test: ast.AST, var: str) -> ast.AST:
    import copy

    class Tr(ast.NodeTransformer):
        def generic_visit(self, node):
            if isinstance(node, (ast.Name, ast.Attribute, ast.Subscript)) and \
                    ast.unparse(node) == var:
                return ast.copy_location(ast.Name("_V", ast.Load()), node)
            return super().generic_visit(node)
    t = Tr().visit(copy.deepcopy(test))
    return ast.fix_missing_locations(t)


def _defaults(prog: Program, run: Run) -> None:
    R = "C15.R3"
    # marker the parsers store for an omitted value
    cv = prog.func("odxtools.complexcomparam:create_complex_value_from_et")
    sub_marker = None
    for x in walk_no_nested(cv.node):
        if isinstance(x, ast.IfExp) and "text is None" in ast.unparse(x.test) and isinstance(
                x.body, ast.Constant):
            sub_marker = x.body.value
    if sub_marker is None:
        sub_marker = ""
        run.note("C15.R3: create_complex_value_from_et stores el.text as is; ElementTree yields "
                 "None for an empty element")
        sub_marker = None
    # ElementTree.findtext of an existing empty element yields ''
    simple_marker = ""
    gv = prog.func("ComparamInstance.get_value")
    C = "ComparamInstance.get_value"
    # what get_value returns for the parser's marker of an omitted value and for a real value,
    # read off the symbolic paths (if/else, `a or b`, conditional expression alike)
    paths = symbolic_paths(gv.node)

    def pick(e: ast.AST, val: object) -> str:
        if isinstance(e, ast.BoolOp) and isinstance(e.op, ast.Or):
            for o in e.values[:-1]:
                if ast.unparse(o) == "self.value":
                    if val:
                        return "self.value"
                    continue
                return "?" + ast.unparse(e)
            return pick(e.values[-1], val)
        if isinstance(e, ast.IfExp):
            v = _eval_missing(e.test, "self.value", val)
            if v is None:
                return "?" + ast.unparse(e)
            return pick(e.body if v else e.orelse, val)
        return ast.unparse(e)

    def returned(val: object) -> Set[str]:
        got = set()
        for p_ in paths:
            if p_.retval is None:
                continue
            if all(_eval_missing(t_, "self.value", val) in (None, pol) for t_, pol in p_.conds):
                got.add(pick(p_.retval, val))
        return got
    r_marker, r_real = returned(simple_marker), returned("500000")
    if r_marker == {"self.spec.physical_default_value"} and r_real == {"self.value"}:
        run.ok(R, C, "falls back to spec.physical_default_value exactly when the value is the "
               "parser's marker for an omitted value ('')", gv.loc)
    else:
        run.violation(R, C, "default-fallback",
                      f"get_value returns {sorted(r_marker)} for an omitted value and "
                      f"{sorted(r_real)} for a specified one; it must select the specification's "
                      "default exactly for the omitted value: the parser stores '' for an empty "
                      "<SIMPLE-VALUE/> (never None)", gv.loc)
    gs = prog.func("ComparamInstance.get_subvalue")
    C = "ComparamInstance.get_subvalue"
    fn = gs.node
    name_p = gs.params()[1]
    # index = position of the name in spec.subparams
    nl = None
    for x in walk_no_nested(fn):
        if isinstance(x, ast.Assign) and isinstance(x.value, ast.ListComp) and "subparams" in \
                ast.unparse(x.value) and ".short_name" in ast.unparse(x.value.elt):
            nl = x.targets[0].id if isinstance(x.targets[0], ast.Name) else None
            # value_list is parallel to the FULL subparams list (simple and complex ones): the
            # names must be taken from that list itself, not from a filtered / reordered copy
            gen = x.value.generators[0]
            it = gen.iter
            if isinstance(it, ast.Name):
                defs = [y for y in walk_no_nested(fn) if isinstance(y, ast.Assign) and
                        isinstance(y.targets[0], ast.Name) and y.targets[0].id == it.id]
                if len(defs) == 1:
                    it = defs[0].value
            if gen.ifs or len(x.value.generators) != 1 or not (
                    isinstance(it, ast.Attribute) and it.attr == "subparams"):
                run.violation(R, "ComparamInstance.get_subvalue", "subvalue-index-filtered",
                              f"`{ast.unparse(x.value)[:100]}` takes the names from a filtered or "
                              "derived list, but the index found in it is applied to the value "
                              "list, which is parallel to ALL sub-parameters (simple and complex "
                              "ones): values behind a nested COMPLEX-COMPARAM are read from the "
                              "wrong slot", f"{gs.module.rel}:{x.lineno}", stmt_key(x))
                return
    idx = None
    for x in walk_no_nested(fn):
        if isinstance(x, ast.Assign) and isinstance(x.value, ast.Call) and call_name(
                x.value) == "index" and nl and ast.unparse(x.value.func) == f"{nl}.index" and [
                    ast.unparse(a) for a in x.value.args] == [name_p]:
            idx = x.targets[0].id if isinstance(x.targets[0], ast.Name) else None
    res = None
    for x in walk_no_nested(fn):
        if isinstance(x, ast.Assign) and isinstance(x.value, ast.Subscript) and idx and \
                ast.unparse(x.value.slice) == idx and isinstance(x.targets[0], ast.Name) and \
                "subparams" not in ast.unparse(x.value):
            res = x.targets[0].id
    if nl and idx and res:
        run.ok(R, C, "sub-value index = position of the sub-parameter's name in spec.subparams",
               gs.loc)
    else:
        run.violation(R, C, "subvalue-index",
                      "the sub-value is not taken at the position of the sub-parameter's name in "
                      "the specification's subparams", gs.loc)
        return
    # the test may look at the local the sub-value was put into, or at the indexing expression
    # itself (`if values[i] is None ...: r = default else: r = values[i]`)
    res_expr = None
    for x in walk_no_nested(fn):
        if isinstance(x, ast.Assign) and isinstance(x.targets[0], ast.Name) and \
                x.targets[0].id == res and isinstance(x.value, ast.Subscript):
            res_expr = ast.unparse(x.value)
    ifs = [x for x in walk_no_nested(fn) if isinstance(x, ast.If) and (res in {
        n.id for n in ast.walk(x.test) if isinstance(n, ast.Name)} or (
            res_expr is not None and res_expr in ast.unparse(x.test))) and any(
            "physical_default_value" in ast.unparse(s) for s in x.body)]
    if ifs and res not in {n.id for n in ast.walk(ifs[0].test) if isinstance(n, ast.Name)} and \
            res_expr is not None:
        res = res_expr
    if not ifs:
        run.violation(R, C, "no-default", "sub-values never fall back to the default", gs.loc)
        return
    t = ifs[0]
    vm = _eval_missing(t.test, res, sub_marker)
    vr = _eval_missing(t.test, res, "1234")
    if vm is True and vr is False:
        run.ok(R, C, "falls back to the sub-parameter's default exactly for the parser's marker "
               f"of an omitted sub-value ({sub_marker!r})", f"{gs.module.rel}:{t.lineno}")
    else:
        run.violation(R, C, "subvalue-default-unreachable",
                      f"`if {ast.unparse(t.test)}` never selects the default: "
                      f"create_complex_value_from_et stores {sub_marker!r} for an omitted "
                      "<SIMPLE-VALUE/>, so an omitted sub-value is returned as that marker "
                      "instead of the specification's default", f"{gs.module.rel}:{t.lineno}",
                      stmt_key(t))


def _subparam_order(prog: Program, run: Run) -> None:
    """The sub-value index of get_subvalue() is the position of the sub-parameter in the
    specification: the parser must collect COMPARAM and COMPLEX-COMPARAM children in ONE pass
    in document order, not per tag."""
    R = "C15.R3"
    f = prog.func("ComplexComparam.from_et")
    C = "ComplexComparam.from_et"
    TAGS = ("COMPARAM", "COMPLEX-COMPARAM")

    def tag_values(e: ast.AST) -> List[str]:
        """the tag(s) an iterfind argument can stand for: a literal, or a loop variable that
        ranges over a literal tuple / list of tags"""
        if isinstance(e, ast.Constant):
            return [str(e.value).split("/")[-1]]
        if isinstance(e, ast.Name):
            for l in walk_no_nested(f.node):
                if isinstance(l, ast.For) and isinstance(l.target, ast.Name) and \
                        l.target.id == e.id and isinstance(l.iter, (ast.Tuple, ast.List)) and all(
                            isinstance(c, ast.Constant) for c in l.iter.elts):
                    return [str(c.value).split("/")[-1] for c in l.iter.elts]
        return []
    per_tag = [x for x in walk_no_nested(f.node) if isinstance(x, ast.Call) and isinstance(
        x.func, ast.Attribute) and x.func.attr in ("iterfind", "findall", "iter") and x.args and
        any(t in TAGS for t in tag_values(x.args[0]))]
    # (nested predicate functions / lambdas of the parser included)
    # ... and predicate functions of the package that the parser passes on by name
    scopes, todo, seen = [f.node], [f.node], set()
    while todo:
        for x in ast.walk(todo.pop()):
            if isinstance(x, ast.Name) and x.id not in seen:
                seen.add(x.id)
                g = prog.module_func(f.module, x.id)
                if g is not None and g.cls is None:
                    scopes.append(g.node)
                    todo.append(g.node)
    tag_tests = [x for sc in scopes for x in ast.walk(sc) if isinstance(x, ast.Compare) and
                 isinstance(x.left, ast.Attribute) and x.left.attr == "tag" and all(
                     k in ast.unparse(x) for k in ("'COMPARAM'", "'COMPLEX-COMPARAM'"))]
    if per_tag:
        run.violation(R, C, "subparams-per-tag",
                      f"`{ast.unparse(per_tag[0])}` collects the sub-parameters tag by tag: a "
                      "nested COMPLEX-COMPARAM that precedes a simple COMPARAM moves behind it, "
                      "so get_subvalue() and the complex default value read the wrong slot",
                      f"{f.module.rel}:{per_tag[0].lineno}")
    elif tag_tests:
        run.ok(R, C, "sub-parameters are collected in one pass over the children (document "
               "order), both tags accepted by the same test", f.loc)
    else:
        raise AnalysisError("ComplexComparam.from_et: sub-parameter collection not recognised")


def _subvalue_order(prog: Program, run: Run) -> None:
    """... and the VALUE side likewise: create_complex_value_from_et() keeps SIMPLE-VALUE and
    nested COMPLEX-VALUE children in document order (one pass over the children), because
    get_subvalue() pairs the values with the sub-parameters by position."""
    R = "C15.R3"
    f = prog.func("odxtools.complexcomparam:create_complex_value_from_et")
    C = "create_complex_value_from_et"
    elem = f.params()[0]
    per_tag = [x for x in walk_no_nested(f.node) if isinstance(x, ast.Call) and isinstance(
        x.func, ast.Attribute) and x.func.attr in ("iterfind", "findall", "iter", "find") and
        x.args and isinstance(x.args[0], ast.Constant) and str(x.args[0].value).split("/")[-1] in (
            "SIMPLE-VALUE", "COMPLEX-VALUE")]
    one_pass = [x for x in ast.walk(f.node) if isinstance(x, (ast.For, ast.comprehension)) and
                isinstance(x.iter, ast.Name) and x.iter.id == elem] + [
        x for x in ast.walk(f.node) if isinstance(x, (ast.For, ast.comprehension)) and isinstance(
            x.iter, ast.Call) and call_name(x.iter) in ("list", "iter") and x.iter.args and
        ast.unparse(x.iter.args[0]) == elem]
    if per_tag:
        run.violation(R, C, "subvalues-per-tag",
                      f"`{ast.unparse(per_tag[0])}` collects the sub-values tag by tag: a nested "
                      "COMPLEX-VALUE that precedes a SIMPLE-VALUE moves behind it, so "
                      "get_subvalue() pairs the values with the wrong sub-parameters",
                      f"{f.module.rel}:{per_tag[0].lineno}")
    elif len(one_pass) == 1:
        run.ok(R, C, "sub-values are collected in one pass over the children (document order)",
               f.loc)
    else:
        raise AnalysisError("create_complex_value_from_et: collection of the sub-values not "
                            "recognised")


def _accessors(prog: Program, run: Run) -> None:
    R = "C15.R4"
    he = prog.cls("HierarchyElement")
    for name, (cp, sub, conv) in ACCESSORS.items():
        m = he.methods.get(name)
        C = f"HierarchyElement.{name}"
        if m is None:
            run.violation(R, C, "missing", f"accessor {name} is gone", he.loc)
            continue
        calls = [x for x in walk_no_nested(m.node) if isinstance(x, ast.Call) and call_name(x) ==
                 "get_comparam"]
        ok = True
        if not calls:
            ok = False
            run.violation(R, C, "no-lookup", "does not look the parameter up", m.loc)
            continue
        for c in calls:
            a0 = c.args[0].value if c.args and isinstance(c.args[0], ast.Constant) else None
            if a0 != cp:
                ok = False
                run.violation(R, C, "wrong-parameter",
                              f"reads communication parameter {a0!r}, expected {cp!r}",
                              f"{m.module.rel}:{c.lineno}", ast.unparse(c))
            kws = {k.arg: ast.unparse(k.value) for k in c.keywords}
            if kws.get("protocol") != "protocol":
                ok = False
                run.violation(R, C, "protocol-not-forwarded",
                              "does not forward its protocol argument to get_comparam: the "
                              "generic definition is returned for every protocol",
                              f"{m.module.rel}:{c.lineno}", ast.unparse(c))
        subs = [x for x in walk_no_nested(m.node) if isinstance(x, ast.Call) and call_name(x) ==
                "get_subvalue"]
        if sub is not None:
            got = [x.args[0].value for x in subs if x.args and isinstance(x.args[0], ast.Constant)]
            if got != [sub]:
                ok = False
                run.violation(R, C, "wrong-subparameter",
                              f"reads sub-parameter(s) {got}, expected [{sub!r}]", m.loc)
        elif subs:
            ok = False
            run.violation(R, C, "unexpected-subvalue", "reads a sub-value of a simple parameter",
                          m.loc)
        # the value is read through get_value() / get_subvalue(): those apply the default of the
        # specification when the value was omitted; the raw `.value` does not
        cp_vars = {x.targets[0].id for x in walk_no_nested(m.node) if isinstance(x, ast.Assign) and
                   len(x.targets) == 1 and isinstance(x.targets[0], ast.Name) and any(
                       y is x.value or any(z is y for z in ast.walk(x.value)) for y in calls)}
        raw = [x for x in walk_no_nested(m.node) if isinstance(x, ast.Attribute) and x.attr in (
            "value", "_value") and isinstance(x.value, ast.Name) and x.value.id in cp_vars]
        reads = [x for x in walk_no_nested(m.node) if isinstance(x, ast.Call) and call_name(x) in (
            "get_value", "get_subvalue")]
        if raw or not reads:
            ok = False
            run.violation(R, C, "bypasses-default",
                          (f"reads `{ast.unparse(raw[0])}` directly" if raw else
                           "does not read the value through get_value() / get_subvalue()")
                          + ": an omitted value is not replaced by the specification's "
                          "PHYSICAL-DEFAULT-VALUE", m.loc)
        rets = [r for r in walk_no_nested(m.node) if isinstance(r, ast.Return) and r.value is not
                None and not (isinstance(r.value, ast.Constant))]
        conv_ok = False
        for r in rets:
            s = ast.unparse(r.value)
            if conv == "int" and isinstance(r.value, ast.Call) and call_name(r.value) == "int" \
                    and len(r.value.args) == 1 and isinstance(r.value.args[0], ast.Name):
                conv_ok = True
            if conv == "us" and isinstance(r.value, ast.BinOp):
                n = normalize(r.value)
                # float(x) / 1e6
                if isinstance(r.value.op, ast.Div) and normalize(
                        r.value.right).const_value() == 1000000 and "float(" in s:
                    conv_ok = True
                if isinstance(r.value.op, ast.Mult) and normalize(
                        r.value.right).const_value() is not None and float(normalize(
                            r.value.right).const_value()) == 1e-6 and "float(" in s:
                    conv_ok = True
            if conv == "regex" and "int(" in s and "group(1)" in s:
                conv_ok = True
        if not conv_ok:
            ok = False
            want = {"int": "int(value)", "us": "float(value) / 1e6 (microseconds to seconds)",
                    "regex": "int() of the TX_DL group"}[conv]
            run.violation(R, C, "conversion",
                          f"does not return {want}; returns "
                          f"{[ast.unparse(r.value) for r in rets]}", m.loc)
        if ok:
            run.ok(R, C, f"reads {cp}{'/' + sub if sub else ''}, forwards the protocol, converts "
                   f"with {conv}", m.loc)
