"""Decision tables over the type branches of EncodeState.emplace_atomic_value and
DecodeState.extract_atomic_value: which encodings a branch accepts, and what it computes for each
(encoding, sign) scenario -- read off the symbolic paths of the branch body, independent of how
the if/elif chains are arranged or whether parts live in helpers (new helpers are inlined by the
normalisation layer)."""
from __future__ import annotations

import ast
from typing import Callable, Dict, List, Optional, Set, Tuple

from ..absint import eval_test
from ..cfg import SymPath, symbolic_block_paths
from ..src import AnalysisError, FuncInfo, Program, attr_chain, call_name


def type_branches(f: FuncInfo) -> Dict[str, List[ast.stmt]]:
    """"A_INT32" / "A_ASCIISTRING|A_UNICODE2STRING|A_UTF8STRING" / ... / "else" -> branch body of
    the dispatch on base_data_type."""
    head = None
    for st in f.node.body:
        if isinstance(st, ast.If) and "base_data_type" in ast.unparse(st.test) and any(
                (attr_chain(n) or [""])[0] == "DataType" for n in ast.walk(st.test)):
            # the dispatch that distinguishes the integer types (not the float format choice)
            chain_tests = []
            c: Optional[ast.If] = st
            while c is not None:
                chain_tests.append(ast.unparse(c.test))
                c = c.orelse[0] if len(c.orelse) == 1 and isinstance(c.orelse[0], ast.If) \
                    else None
            if any("A_INT32" in t for t in chain_tests) and any(
                    "A_UINT32" in t for t in chain_tests) and len(chain_tests) >= 3:
                head = st
                break
    if head is None:
        raise AnalysisError(f"{f.qual}: type dispatch not found")
    out: Dict[str, List[ast.stmt]] = {}
    cur: Optional[ast.If] = head
    while cur is not None:
        types = sorted({ch[-1] for n in ast.walk(cur.test) for ch in [attr_chain(n)]
                        if ch and len(ch) == 2 and ch[0] == "DataType"})
        out["|".join(types)] = cur.body
        if len(cur.orelse) == 1 and isinstance(cur.orelse[0], ast.If):
            cur = cur.orelse[0]
        else:
            out["else"] = cur.orelse
            cur = None
    return out


def encodings(prog: Program) -> List[Optional[str]]:
    ci = prog.cls("Encoding")
    names: List[Optional[str]] = [None]
    for st in ci.node.body:
        if isinstance(st, ast.Assign) and isinstance(st.targets[0], ast.Name):
            names.append(st.targets[0].id)
    if len(names) < 8:
        raise AnalysisError("Encoding: enumeration members not found")
    return names


def is_report(st: ast.AST, env: Dict[str, object], leaf=None) -> bool:
    """does executing this statement report a problem (raise / odxraise / failed odxassert)?"""
    if isinstance(st, ast.Raise):
        return True
    if isinstance(st, ast.Expr) and isinstance(st.value, ast.Call):
        n = call_name(st.value)
        if n == "odxraise":
            return True
        if n == "odxassert" and st.value.args:
            return eval_test(st.value.args[0], env, leaf) is False
    return False


def scenario(paths: List[SymPath], env: Dict[str, object], leaf=None) -> List[SymPath]:
    return [p for p in paths
            if all(eval_test(t, env, leaf) in (None, pol) for t, pol in p.conds)]


def branch_paths(body: List[ast.stmt]) -> Optional[List[SymPath]]:
    if not body:
        return []
    try:
        return symbolic_block_paths(body)
    except AnalysisError:
        return None  # loops inside the branch: the caller falls back


def accepted(prog: Program, body: List[ast.stmt], var: str = "base_type_encoding"
             ) -> Optional[Set[str]]:
    """the encodings for which the branch has a path that reports no problem"""
    paths = branch_paths(body)
    if paths is None:
        return None
    out: Set[str] = set()
    for enc in encodings(prog):
        env: Dict[str, object] = {var: None if enc is None else f"Encoding.{enc}"}
        cons = scenario(paths, env)
        if any(not any(is_report(st, env) for st in p.trace) for p in cons):
            out.add(str(enc))
    return out


def select(expr: Optional[ast.AST], env: Dict[str, object], leaf=None) -> Optional[ast.AST]:
    """resolve conditional expressions in a symbolic value under the scenario"""
    while isinstance(expr, ast.IfExp):
        c = eval_test(expr.test, env, leaf)
        if c is None:
            return expr
        expr = expr.body if c else expr.orelse
    return expr
