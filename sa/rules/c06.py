"""C06 — messages are attributed to exactly the services whose description matches."""
from __future__ import annotations

import ast
import copy
from typing import Dict, List, Optional, Set, Tuple

from ..cfg import CFG, path_conditions, symbolic_block, symbolic_returns, EXIT
from ..exprnorm import Poly, Rat, conj_test, norm_test, normalize
from ..report import Run
from ..src import AnalysisError, FuncInfo, Program, call_name, stmt_key, walk_no_nested
from . import common

EXPLANATION = (
    "Structural rules over the dispatch code: the prefix-tree walk examines the leaf key at the "
    "root and after every descent, accumulates services and stops only when a byte is missing; "
    "every candidate loop isolates its candidates (a per-iteration try whose handler covers "
    "DecodeError, no raise that can leave the loop, the only DecodeError after the loop under "
    "'nothing decoded'); the candidate filter is the byte-prefix test; the prefix tree is built "
    "from the request prefix and the prefixes of positive, negative and global negative "
    "responses computed *per service* with that service's request prefix; the constant prefix "
    "stops at the first non-constant parameter; the service binner returns the most significant "
    "byte of the leading coded constants; responses are looked up through their request.")
ASSUMPTIONS = [
    "attribution for concrete sets of services and messages is not computed; each rule is a "
    "necessary condition for 'exactly those services'",
]


def _stmt(fn: ast.AST, x: ast.AST) -> ast.stmt:
    best = None
    for st in walk_no_nested(fn):
        if isinstance(st, ast.stmt) and st is not fn and not isinstance(
                st, (ast.If, ast.For, ast.While, ast.Try, ast.With)) and any(
                    z is x for z in ast.walk(st)):
            best = st
    if best is None:
        for st in walk_no_nested(fn):
            if isinstance(st, (ast.If, ast.While)) and any(z is x for z in ast.walk(st.test)):
                best = st
            if isinstance(st, ast.For) and any(z is x for z in ast.walk(st.iter)):
                best = st
    if best is None:
        raise AnalysisError("expression without statement")
    return best


def _uncast(e: ast.AST) -> ast.AST:
    while isinstance(e, ast.Call) and call_name(e) == "cast" and len(e.args) == 2:
        e = e.args[1]
    return e


def _is_leaf_key(e: ast.AST) -> bool:
    return isinstance(e, ast.UnaryOp) and isinstance(e.op, ast.USub) and isinstance(
        e.operand, ast.Constant) and e.operand.value == 1


def _extend_tree(prog: Program, run: Run, R: str) -> None:
    """DiagLayer._extend_prefix_tree, structurally: one descent per prefix byte into the child
    keyed by that byte (created only when missing), then the service stored in the list under
    key -1 of the node reached, on every path."""
    h = prog.func("DiagLayer._extend_prefix_tree")
    C = "DiagLayer._extend_prefix_tree"
    ps = h.params()
    if len(ps) < 3:
        raise AnalysisError(f"{C}: expected (tree, prefix, service)")
    tree_p, prefix_p, svc_p = ps[-3], ps[-2], ps[-1]
    trees = {tree_p}
    for st in walk_no_nested(h.node):
        if isinstance(st, ast.Assign) and len(st.targets) == 1 and isinstance(
                st.targets[0], ast.Name):
            v = _uncast(st.value)
            if isinstance(v, ast.Name) and v.id in trees:
                trees.add(st.targets[0].id)
    loops = [l for l in walk_no_nested(h.node) if isinstance(l, ast.For) and ast.unparse(
        _uncast(l.iter)) == prefix_p and isinstance(l.target, ast.Name)]
    if len(loops) != 1:
        raise AnalysisError(f"{C}: loop over the prefix bytes not found")
    lp = loops[0]
    b = lp.target.id
    cfg = CFG(h.node)
    bad: List[str] = []
    descents = []
    for st in ast.walk(lp):
        if isinstance(st, ast.Assign) and len(st.targets) == 1 and isinstance(
                st.targets[0], ast.Name) and st.targets[0].id in trees:
            v = _uncast(st.value)
            t = st.targets[0].id
            if isinstance(v, ast.Subscript) and ast.unparse(v.value) == t and ast.unparse(
                    v.slice) == b:
                descents.append(("index", st, t))
            elif isinstance(v, ast.Call) and isinstance(v.func, ast.Attribute) and \
                    v.func.attr == "setdefault" and ast.unparse(v.func.value) == t and \
                    len(v.args) == 2 and ast.unparse(v.args[0]) == b and isinstance(
                        v.args[1], ast.Dict) and not v.args[1].keys:
                descents.append(("setdefault", st, t))
            else:
                bad.append(f"`{stmt_key(st)}` does not descend into the child keyed by the "
                           "prefix byte")
    if len(descents) != 1:
        bad.append(f"{len(descents)} descents per prefix byte")
    else:
        kind, dst, t = descents[0]
        if cfg.branch_conditions(cfg.node_of(dst)) and any(
                any(z is dst for z in ast.walk(x)) for x in lp.body if isinstance(x, ast.If)):
            bad.append("the descent is conditional")
        creates = [x for x in ast.walk(lp) if isinstance(x, ast.Assign) and isinstance(
            x.targets[0], ast.Subscript) and ast.unparse(x.targets[0].value) == t and
            ast.unparse(x.targets[0].slice) == b]
        if kind == "index":
            want = norm_test(ast.parse(f"{b} not in {t}", mode="eval").body)
            if len(creates) != 1 or not (isinstance(creates[0].value, ast.Dict) and
                                         not creates[0].value.keys):
                bad.append("a missing child node is not created as an empty node")
            elif conj_test(path_conditions(cfg, cfg.node_of(creates[0]))) != want:
                bad.append("child nodes are (re-)created although they exist: services filed "
                           "under longer prefixes are dropped")
        elif creates:
            bad.append("child nodes are overwritten")
    tvar = descents[0][2] if len(descents) == 1 else None
    # the leaf: T[-1] / T.get(-1) / T.setdefault(-1, []) and the locals bound to them
    def leaf_expr(e: ast.AST, names: Set[str]) -> bool:
        e = _uncast(e)
        if isinstance(e, ast.Name):
            return e.id in names
        if isinstance(e, ast.Subscript):
            return ast.unparse(e.value) == tvar and _is_leaf_key(e.slice)
        if isinstance(e, ast.Call) and isinstance(e.func, ast.Attribute) and e.func.attr in (
                "get", "setdefault") and ast.unparse(e.func.value) == tvar and e.args:
            return _is_leaf_key(e.args[0])
        return False
    after = [st for st in walk_no_nested(h.node) if isinstance(st, ast.stmt) and getattr(
        st, "lineno", 0) > lp.end_lineno]
    names: Set[str] = set()
    for st in after:
        if isinstance(st, ast.Assign):
            tg_names = [t_.id for t_ in st.targets if isinstance(t_, ast.Name)]
            stores_leaf = any(isinstance(t_, ast.Subscript) and leaf_expr(t_, set())
                              for t_ in st.targets)
            if tg_names and (leaf_expr(st.value, names) or stores_leaf):
                names.update(tg_names)
    stores = []
    for st in after:
        if isinstance(st, ast.Assign) and any(isinstance(t_, ast.Subscript) and leaf_expr(
                t_, set()) for t_ in st.targets) and isinstance(st.value, ast.List) and any(
                    ast.unparse(e) == svc_p for e in st.value.elts):
            stores.append(st)
        if isinstance(st, ast.Expr) and isinstance(st.value, ast.Call) and isinstance(
                st.value.func, ast.Attribute) and st.value.func.attr == "append" and \
                leaf_expr(st.value.func.value, names) and len(st.value.args) == 1 and \
                ast.unparse(st.value.args[0]) == svc_p:
            stores.append(st)
        # a fresh list bound to a leaf local must also be stored in the tree
        if isinstance(st, ast.Assign) and any(isinstance(t_, ast.Name) and t_.id in names
                                              for t_ in st.targets) and isinstance(
                                                  _uncast(st.value), ast.List):
            if not any(isinstance(t_, ast.Subscript) and leaf_expr(t_, set())
                       for t_ in st.targets):
                nxt = [x for x in after if isinstance(x, ast.Assign) and any(
                    isinstance(t_, ast.Subscript) and leaf_expr(t_, set()) for t_ in x.targets)
                    and leaf_expr(x.value, names)]
                if not nxt:
                    bad.append(f"`{stmt_key(st)}`: the fresh list is not stored under the leaf key")
        # overwriting an existing leaf list loses the services filed before
        if isinstance(st, ast.Assign) and any(isinstance(t_, ast.Subscript) and leaf_expr(
                t_, set()) for t_ in st.targets) and isinstance(_uncast(st.value), ast.List):
            conds = conj_test(path_conditions(cfg, cfg.node_of(st)))
            if "is None" not in conds and "not in" not in conds:
                bad.append(f"`{stmt_key(st)}` replaces the list of the node unconditionally: "
                           "services filed earlier under the same prefix are lost")
    if tvar is not None:
        if not stores:
            bad.append("the service is never stored under the leaf key (-1)")
        elif not cfg.must_pass(cfg.node_of(lp), [cfg.node_of(x) for x in stores], EXIT):
            bad.append("there is a path on which the service is not stored")
    if not bad:
        run.ok(R, C, "descends byte by byte (creating only missing nodes) and appends the "
               "service under the leaf key on every path", h.loc)
    else:
        run.violation(R, C, "leaf", "services are not appended under the leaf key of the node "
                      "reached by the prefix bytes: " + "; ".join(bad), h.loc)


def check(prog: Program, run: Run) -> None:
    run.rule("C06.R1", "the prefix-tree walk collects the services of every node on the path, "
             "root included", floor=3)
    run.rule("C06.R2", "candidates are isolated: one failing candidate never aborts the others",
             floor=4)
    run.rule("C06.R3", "candidate filter and prefix-tree construction use the per-service "
             "constant prefixes of request, positive, negative and global negative responses",
             floor=6)
    run.rule("C06.R4", "the constant prefix ends at the first parameter that is not constant",
             floor=2)
    run.rule("C06.R5", "the service binner files a service under the first byte of its request",
             floor=3)
    run.rule("C06.G1", "literal attribute names used by the dispatch code exist", floor=1)
    run.rule("C06.R6", "the candidate sets the dispatch works on -- the layer's services and its "
             "global negative responses -- are the inherited ones minus exactly what the parent "
             "reference excludes for THAT category (wiring shared with C09.R2)", floor=2)
    _walk(prog, run)
    _isolation(prog, run)
    _candidate_wiring(prog, run)
    # ... and what a candidate raises for bytes it cannot decode IS a DecodeError (anything else
    # passes the per-candidate handlers and aborts the dispatch): C05's escape analysis
    from . import c05
    c05.escape_rule(prog, run, "C06.R2", info=False)
    _dedupe(prog, run)
    _prefixes(prog, run)
    _const_prefix(prog, run)
    _binner(prog, run)
    common.g1_literal_attrs(prog, run, "C06.G1", ["odxtools/diaglayers/diaglayer.py",
                                                  "odxtools/diagservice.py"])


def _candidate_wiring(prog: Program, run: Run) -> None:
    from . import c09
    from .common import Run as _Run
    tmp = _Run(run.prop, run.tier, "", [])
    tmp.rule("C09.R2", "")
    c09._wiring(prog, tmp)
    for i in tmp.instances:
        if not any(k in i["construct"] for k in ("diag_comms", "global_neg")):
            continue
        if i["verdict"] == "holds":
            run.ok("C06.R6", i["construct"], i["obligation"], i["loc"])
        else:
            run.violation("C06.R6", i["construct"], i["aspect"], i["obligation"], i["loc"],
                          i.get("stmt", ""))


def _walk(prog: Program, run: Run) -> None:
    R = "C06.R1"
    f = prog.func("DiagLayer._find_services_for_uds")
    fn = f.node
    cfg = CFG(fn)
    C = "DiagLayer._find_services_for_uds"
    loops = [l for l in walk_no_nested(fn) if isinstance(l, ast.For)]
    if len(loops) != 1:
        raise AnalysisError("_find_services_for_uds: byte loop not found")
    lp = loops[0]
    msg = f.params()[1]
    if ast.unparse(lp.iter) != msg:
        run.violation(R, C, "loop-source", f"the walk iterates `{ast.unparse(lp.iter)}` instead of "
                      "the bytes of the message", f"{f.module.rel}:{lp.lineno}")
    tree = None
    for x in walk_no_nested(fn):
        if isinstance(x, ast.Assign) and "_prefix_tree" in ast.unparse(x.value) and isinstance(
                x.targets[0], ast.Name):
            tree = x.targets[0].id
    if tree is None:
        raise AnalysisError("_find_services_for_uds: prefix tree variable not found")
    leaf_checks = [x for x in walk_no_nested(fn) if isinstance(x, ast.If) and norm_test(
        x.test) == norm_test(ast.parse(f"-1 in {tree}", mode="eval").body)]
    in_loop = [x for x in leaf_checks if any(z is x for z in ast.walk(lp))]
    before = [x for x in leaf_checks if x not in in_loop and cfg.dominates(
        cfg.node_of(x), cfg.node_of(lp))]
    acc_ok = True
    res = None
    for lc in leaf_checks:
        for s in lc.body:
            if isinstance(s, ast.AugAssign) and isinstance(s.op, ast.Add):
                res = ast.unparse(s.target)
            elif isinstance(s, ast.Expr) and isinstance(s.value, ast.Call) and call_name(
                    s.value) in ("extend",):
                res = ast.unparse(s.value.func.value)  # type: ignore[attr-defined]
            elif isinstance(s, ast.Assign):
                acc_ok = False
                run.violation(R, C, "overwrites-results",
                              f"`{stmt_key(s)}` replaces the services collected so far instead of "
                              "adding to them: services with a shorter prefix are lost",
                              f"{f.module.rel}:{s.lineno}", stmt_key(s))
    if in_loop and acc_ok:
        run.ok(R, C, "after every descent the services stored at the node are accumulated",
               f"{f.module.rel}:{in_loop[0].lineno}")
    elif not in_loop:
        run.violation(R, C, "no-leaf-check", "services stored at the nodes on the path are not "
                      "collected", f.loc)
    if before:
        run.ok(R, C, "services stored at the root (empty constant prefix) are collected",
               f"{f.module.rel}:{before[0].lineno}")
    else:
        run.violation(R, C, "root-not-checked",
                      "the leaf key is only looked up after a descent, never at the root: a "
                      "service whose request or response has an empty constant prefix is never "
                      "found by DiagLayer.decode", f"{f.module.rel}:{lp.lineno}")
    # the walk stops only when the byte is missing
    exits = [x for x in ast.walk(lp) if isinstance(x, (ast.Break, ast.Return))]
    for e in exits:
        conds = [norm_test(t, negate=not p) for t, p in cfg.branch_conditions(cfg.node_of(e))]
        want = norm_test(ast.parse(f"b not in {tree}".replace("b", ast.unparse(lp.target), 1),
                                   mode="eval").body)
        if want in conds:
            run.ok(R, C, "the walk ends when the next byte is not in the tree",
                   f"{f.module.rel}:{e.lineno}")
        else:
            run.violation(R, C, "early-stop",
                          f"the walk is left under {conds}, not only when the next byte is "
                          "missing from the tree", f"{f.module.rel}:{e.lineno}")
    rets = [r for r in walk_no_nested(fn) if isinstance(r, ast.Return) and r.value is not None]
    if res and all(ast.unparse(r.value) == res for r in rets):
        run.ok(R, C, "returns the accumulated services", f.loc)
    else:
        run.violation(R, C, "return", "does not return the accumulated services", f.loc)


def _isolation(prog: Program, run: Run) -> None:
    R = "C06.R2"
    table = [("DiagLayer._decode", "candidate_services", "decode_message"),
             ("DiagLayer._decode", "global_negative_responses", "decode"),
             ("DiagService.decode_message", "coding_objects", "decode")]
    for spec, iter_frag, callee in table:
        f = prog.func(spec)
        fn = f.node
        cfg = CFG(fn)
        # the candidate loop: the one that calls <loop variable>.<callee>(...)
        loops = [l for l in walk_no_nested(fn) if isinstance(l, ast.For) and isinstance(
            l.target, ast.Name) and any(
                isinstance(x, ast.Call) and call_name(x) == callee and isinstance(
                    x.func, ast.Attribute) and isinstance(x.func.value, ast.Name) and
                x.func.value.id == l.target.id for x in ast.walk(l))]
        if not loops:
            raise AnalysisError(f"{spec}: loop over {iter_frag} not found")
        lp = loops[0]
        C = f"{spec}[{iter_frag}]"
        calls = [x for x in ast.walk(lp) if isinstance(x, ast.Call) and call_name(x) == callee]
        tries = [t for t in ast.walk(lp) if isinstance(t, ast.Try) and any(
            any(z is c for z in ast.walk(s)) for c in calls for s in t.body)]
        outer_tries = [t for t in walk_no_nested(fn) if isinstance(t, ast.Try) and any(
            z is lp for s in t.body for z in ast.walk(s))]
        if not tries:
            if outer_tries:
                run.violation(R, C, "handler-outside-loop",
                              "the try/except is around the whole loop, not around one "
                              "candidate: the first candidate that does not apply ends the loop "
                              "and later candidates are never tried",
                              f"{f.module.rel}:{outer_tries[0].lineno}")
            else:
                run.violation(R, C, "no-handler", f"`{callee}(...)` of a candidate is not guarded "
                              "by a handler", f"{f.module.rel}:{lp.lineno}")
            continue
        t = tries[0]
        names: List[str] = []
        for h in t.handlers:
            if h.type is None:
                names.append("BaseException")
            elif isinstance(h.type, ast.Tuple):
                names += [ast.unparse(e).split(".")[-1] for e in h.type.elts]
            else:
                names.append(ast.unparse(h.type).split(".")[-1])
        if any(n in ("DecodeError", "OdxError", "Exception", "BaseException") for n in names):
            run.ok(R, C, f"each candidate is tried under except {names}",
                   f"{f.module.rel}:{t.lineno}")
        else:
            run.violation(R, C, "handler-too-narrow",
                          f"a candidate that raises DecodeError (e.g. because the message is too "
                          f"short for it) is not skipped: the handler only catches {names}",
                          f"{f.module.rel}:{t.lineno}")
        # no raise in the loop body can leave the loop
        for r in [x for x in ast.walk(lp) if isinstance(x, ast.Raise)]:
            # allowed: inside a try body whose handler catches it (inner candidate loops)
            inner = [tt for tt in ast.walk(lp) if isinstance(tt, ast.Try) and any(
                z is r for s in tt.body for z in ast.walk(s))]
            if inner:
                continue
            run.violation(R, C, "raise-leaves-loop",
                          f"`{stmt_key(r)}` inside the candidate loop aborts the remaining "
                          "candidates", f"{f.module.rel}:{r.lineno}", stmt_key(r))
        for h in t.handlers:
            for r in [x for s in h.body for x in ast.walk(s) if isinstance(x, ast.Raise)]:
                inner = [tt for s in h.body for tt in ast.walk(s) if isinstance(tt, ast.Try) and
                         any(z is r for s2 in tt.body for z in ast.walk(s2))]
                if not inner:
                    pass  # reported above
        if any(isinstance(x, (ast.Break, ast.Return)) for x in ast.walk(lp) if not any(
                isinstance(l2, ast.For) and l2 is not lp and any(z is x for z in ast.walk(l2))
                for l2 in ast.walk(lp))):
            brk = [x for x in ast.walk(lp) if isinstance(x, (ast.Break, ast.Return))]
            run.violation(R, C, "loop-left-early",
                          "the candidate loop is left before all candidates were tried",
                          f"{f.module.rel}:{brk[0].lineno}")
    # the final error: only when nothing decoded
    f = prog.func("DiagLayer._decode")
    cfg = CFG(f.node)
    finals = [x for x in f.node.body if isinstance(x, ast.If) and any(isinstance(s, ast.Raise)
                                                                      for s in x.body)]
    if finals and norm_test(finals[0].test) in (
            norm_test(ast.parse("len(decoded_messages) == 0", mode="eval").body),
            norm_test(ast.parse("not decoded_messages", mode="eval").body)) and \
            "DecodeError" in ast.unparse(finals[0].body[0]):
        run.ok(R, "DiagLayer._decode", "DecodeError is raised exactly when no candidate decoded "
               "the message", f"{f.module.rel}:{finals[0].lineno}")
    else:
        run.violation(R, "DiagLayer._decode", "final-error",
                      "no DecodeError is raised when nothing could decode the message (or it is "
                      "raised under another condition)", f.loc)


def _dedupe(prog: Program, run: Run) -> None:
    """Interpretations are collected per service: when the collecting loops drop a result because
    an EQUAL one is already there, equality of Message must tell services (and coding objects)
    apart."""
    R = "C06.R2"
    mc = prog.classes.get("Message")
    if mc is None:
        raise AnalysisError("class Message not found")
    ignored: List[str] = []
    for st in mc.node.body:
        if isinstance(st, ast.AnnAssign) and isinstance(st.target, ast.Name) and isinstance(
                st.value, ast.Call) and call_name(st.value) == "field":
            for k in st.value.keywords:
                if k.arg == "compare" and isinstance(k.value, ast.Constant) and not k.value.value:
                    ignored.append(st.target.id)
    custom_eq = "__eq__" in mc.methods
    no_eq = any(isinstance(d, ast.Call) and any(
        k.arg == "eq" and isinstance(k.value, ast.Constant) and k.value.value is False
        for k in d.keywords) for d in mc.node.decorator_list)
    n = 0
    for spec in ("DiagLayer._decode", "DiagService.decode_message"):
        f = prog.func(spec)
        cfg = CFG(f.node)
        for x in walk_no_nested(f.node):
            if not (isinstance(x, ast.Expr) and isinstance(x.value, ast.Call) and call_name(
                    x.value) in ("append", "add", "extend")):
                continue
            n += 1
            for t, _pol in cfg.branch_conditions(cfg.node_of(x)):
                for c in ast.walk(t):
                    if isinstance(c, ast.Compare) and any(isinstance(o, (ast.In, ast.NotIn, ast.Eq,
                                                                         ast.NotEq))
                                                          for o in c.ops) and isinstance(
                            x.value.func, ast.Attribute) and ast.unparse(x.value.func.value) in [
                                ast.unparse(y) for y in [c.left] + c.comparators]:
                        if custom_eq or not no_eq and any(
                                a in ("service", "coding_object") for a in ignored):
                            run.violation(
                                R, spec, "dedupe-ignores-service",
                                f"`{stmt_key(x)}` is skipped when an equal Message was already "
                                f"collected (`{ast.unparse(t)}`), and Message equality ignores "
                                f"{ignored or ['fields (custom __eq__)']}: the interpretation of "
                                "a second service that decodes the same bytes to the same values "
                                "is dropped", f"{f.module.rel}:{x.lineno}", stmt_key(x))
    run.ok(R, "Message", f"{n} collecting statements; no result is dropped for being equal to one "
           "of another service", mc.loc)


def _prefixes(prog: Program, run: Run) -> None:
    R = "C06.R3"
    f = prog.func("DiagService.decode_message")
    msg = f.params()[1]
    # the selection predicate, wherever it is written (if + append in a loop, or the `if` of a
    # comprehension); the candidate's prefix may be held in a local or computed in place
    plocals = {ast.unparse(x.targets[0]) for x in walk_no_nested(f.node)
               if isinstance(x, ast.Assign) and isinstance(x.value, ast.Call) and
               call_name(x.value) == "coded_const_prefix"}

    # prefixes computed ahead of the filter: a dict (keyed by the candidate or its id) or a list
    # of (candidate, prefix) pairs
    def _has_prefix_call(e: ast.AST) -> bool:
        return any(isinstance(c_, ast.Call) and call_name(c_) == "coded_const_prefix"
                   for c_ in ast.walk(e))
    pdicts: Dict[str, ast.DictComp] = {}
    ppairs: Dict[str, int] = {}
    for x in walk_no_nested(f.node):
        if isinstance(x, (ast.Assign, ast.AnnAssign)) and x.value is not None:
            t_ = x.targets[0] if isinstance(x, ast.Assign) else x.target
            if isinstance(t_, ast.Name) and isinstance(x.value, ast.DictComp) and \
                    _has_prefix_call(x.value.value):
                pdicts[t_.id] = x.value
            if isinstance(t_, ast.Name) and isinstance(x.value, ast.ListComp) and isinstance(
                    x.value.elt, ast.Tuple):
                for i_, e_ in enumerate(x.value.elt.elts):
                    if _has_prefix_call(e_):
                        ppairs[t_.id] = i_
    for x in walk_no_nested(f.node):
        gens = x.generators if isinstance(x, (ast.ListComp, ast.GeneratorExp)) else (
            [x] if isinstance(x, ast.For) else [])
        for g_ in gens:
            if isinstance(g_.iter, ast.ListComp) and isinstance(g_.iter.elt, ast.Tuple) and \
                    isinstance(g_.target, ast.Tuple) and len(g_.target.elts) == len(
                        g_.iter.elt.elts):
                for t_, e_ in zip(g_.target.elts, g_.iter.elt.elts):
                    if isinstance(t_, ast.Name) and _has_prefix_call(e_):
                        plocals.add(t_.id)
            if isinstance(g_.iter, ast.Name) and g_.iter.id in ppairs and isinstance(
                    g_.target, ast.Tuple) and len(g_.target.elts) > ppairs[g_.iter.id] and \
                    isinstance(g_.target.elts[ppairs[g_.iter.id]], ast.Name):
                plocals.add(g_.target.elts[ppairs[g_.iter.id]].id)
    by_name: List[str] = []

    class _P(ast.NodeTransformer):
        def visit_Call(self, node: ast.Call) -> ast.AST:
            if call_name(node) == "coded_const_prefix":
                return ast.Name(id="PREFIX", ctx=ast.Load())
            self.generic_visit(node)
            return node

        def visit_Subscript(self, node: ast.Subscript) -> ast.AST:
            if isinstance(node.value, ast.Name) and node.value.id in pdicts:
                dc = pdicts[node.value.id]
                kd = ast.unparse(dc.key).replace(ast.unparse(dc.generators[0].target), "X")
                if any(isinstance(y, ast.Attribute) and y.attr in ("short_name", "long_name")
                       for y in ast.walk(dc.key)):
                    by_name.append(ast.unparse(node))
                    return node
                names_ = [y.id for y in ast.walk(node.slice) if isinstance(y, ast.Name)
                          and y.id != "id"]
                if names_ and ast.unparse(node.slice).replace(names_[0], "X") == kd:
                    return ast.Name(id="PREFIX", ctx=ast.Load())
            self.generic_visit(node)
            return node

        def visit_Name(self, node: ast.Name) -> ast.AST:
            return ast.Name(id="PREFIX", ctx=ast.Load()) if node.id in plocals else node
    preds = [x.test for x in walk_no_nested(f.node) if isinstance(x, ast.If) and any(
        isinstance(c_, ast.Call) and call_name(c_) == "append" for s_ in x.body
        for c_ in ast.walk(s_))]
    for x in walk_no_nested(f.node):
        if isinstance(x, (ast.ListComp, ast.GeneratorExp)):
            for g_ in x.generators:
                preds += list(g_.ifs)
    want = norm_test(ast.parse(f"len({msg}) >= len(PREFIX) and PREFIX == {msg}[:len(PREFIX)]",
                               mode="eval").body)
    alt = norm_test(ast.parse(f"{msg}.startswith(PREFIX)", mode="eval").body)
    got = [norm_test(_P().visit(copy.deepcopy(t))) for t in preds
           if "coded_const_prefix" in ast.unparse(t) or any(
               isinstance(n_, ast.Name) and n_.id in plocals | set(pdicts) for n_ in ast.walk(t))]
    if by_name:
        run.violation(R, "DiagService.decode_message", "prefix-by-name",
                      f"`{by_name[0]}` looks the constant prefix of a candidate up by its NAME: a "
                      "request and a response (or two responses) of one service may share their "
                      "short name, so one of them is filtered with the other one's prefix", f.loc)
    elif any(g_ in (want, alt) for g_ in got):
        run.ok(R, "DiagService.decode_message", "candidates are the coding objects whose constant "
               "prefix is a byte prefix of the message", f.loc)
    else:
        run.violation(R, "DiagService.decode_message", "prefix-filter",
                      f"the candidate filter is {got or '?'}, "
                      f"not `len({msg}) >= len(prefix) and prefix == {msg}[:len(prefix)]`: "
                      "messages are attributed to coding objects whose prefix does not match (or "
                      "matching ones are dropped)", f.loc)
    pc = [x for x in walk_no_nested(f.node) if isinstance(x, ast.Call) and call_name(x) ==
          "coded_const_prefix" and x.keywords]
    if pc and all(ast.unparse(k.value) == "request_prefix" for c in pc for k in c.keywords
                  if k.arg == "request_prefix"):
        run.ok(R, "DiagService.decode_message", "response prefixes are computed with the "
               "service's request prefix", f"{f.module.rel}:{pc[0].lineno}")
    else:
        run.violation(R, "DiagService.decode_message", "request-prefix",
                      "response prefixes are not computed with the request prefix of the "
                      "service", f.loc)
    src = ast.unparse(f.node)
    for part in ("self.positive_responses", "self.negative_responses", "self.request"):
        if part in src:
            run.ok(R, "DiagService.decode_message", f"{part[5:]} is a candidate", f.loc)
        else:
            run.violation(R, "DiagService.decode_message", f"missing-{part[5:]}",
                          f"{part[5:]} is never tried for decoding", f.loc)
    # ---- tree construction
    g = prog.func("DiagLayer._prefix_tree")
    loops = [l for l in walk_no_nested(g.node) if isinstance(l, ast.For) and "services" in
             ast.unparse(l.iter)]
    if not loops:
        raise AnalysisError("_prefix_tree: service loop not found")
    lp = loops[0]
    svc = ast.unparse(lp.target)
    body = ast.unparse(lp)
    calls = [x for x in walk_no_nested(g.node) if isinstance(x, ast.Call) and call_name(x) ==
             "coded_const_prefix"]
    outside = [c for c in calls if not any(z is c for z in ast.walk(lp))]
    if outside:
        run.violation(R, "DiagLayer._prefix_tree", "prefix-not-per-service",
                      f"`{ast.unparse(outside[0])}` is computed once, outside the loop over the "
                      "services: prefixes of responses that echo request bytes "
                      "(MATCHING-REQUEST-PARAM) must be computed with each service's own request "
                      "prefix, otherwise a response is attributed to every service",
                      f"{g.module.rel}:{outside[0].lineno}", ast.unparse(outside[0]))
    resp_calls = [c for c in calls if any(z is c for z in ast.walk(lp)) and c.keywords]
    if resp_calls and all(any(k.arg == "request_prefix" and ast.unparse(k.value) ==
                              "request_prefix" for k in c.keywords) for c in resp_calls):
        run.ok(R, "DiagLayer._prefix_tree", "response prefixes use the request prefix of the "
               "service being inserted", f"{g.module.rel}:{resp_calls[0].lineno}")
    elif not outside:
        run.violation(R, "DiagLayer._prefix_tree", "request-prefix",
                      "response prefixes are not computed with request_prefix=<prefix of this "
                      "service's request>", g.loc)
    for part in (f"{svc}.positive_responses", f"{svc}.negative_responses", "gnrs",
                 f"{svc}.request.coded_const_prefix()"):
        if part in body:
            run.ok(R, "DiagLayer._prefix_tree", f"prefixes of {part} are inserted", g.loc)
        else:
            run.violation(R, "DiagLayer._prefix_tree", f"missing-{part.split('.')[-1]}",
                          f"the prefixes of `{part}` are not inserted into the tree: such "
                          "messages are not attributed to the service", g.loc)
    ins = [x for x in ast.walk(lp) if isinstance(x, ast.Call) and call_name(x) ==
           "_extend_prefix_tree"]
    if ins and ast.unparse(ins[0].args[-1]) == svc:
        run.ok(R, "DiagLayer._prefix_tree", "every prefix is inserted for the service it belongs "
               "to", f"{g.module.rel}:{ins[0].lineno}")
    else:
        run.violation(R, "DiagLayer._prefix_tree", "insert", "prefixes are not inserted for "
                      "their own service", g.loc)
    _extend_tree(prog, run, R)
    # responses are found through the request
    d = prog.func("DiagLayer.decode_response")
    p = d.params()
    # every returned value is self._decode(<response>, <services found for the request>)
    rets_d = [e for _c, e, _r in symbolic_returns(d.node)]
    if rets_d and all(
            isinstance(e, ast.Call) and call_name(e) == "_decode" and len(e.args) == 2 and
            ast.unparse(e.args[0]) == p[1] and isinstance(e.args[1], ast.Call) and
            call_name(e.args[1]) == "_find_services_for_uds" and
            [ast.unparse(a) for a in e.args[1].args] == [p[2]] for e in rets_d):
        run.ok(R, "DiagLayer.decode_response", "candidates are found through the request, the "
               "response is decoded with them", d.loc)
    else:
        run.violation(R, "DiagLayer.decode_response", "lookup",
                      "a response is not looked up through the request that triggered it", d.loc)


def _const_prefix(prog: Program, run: Run) -> None:
    R = "C06.R4"
    f = prog.func("odxtools.codec:composite_codec_get_coded_const_prefix")
    loops = [l for l in walk_no_nested(f.node) if isinstance(l, ast.For)]
    if len(loops) != 1:
        raise AnalysisError("composite_codec_get_coded_const_prefix: parameter loop not found")
    lp = loops[0]
    cfg = CFG(f.node)
    if ast.unparse(lp.iter) != "codec.parameters":
        run.violation(R, f.qual, "iteration", f"iterates `{ast.unparse(lp.iter)}`",
                      f"{f.module.rel}:{lp.lineno}")
    conts = [x for x in ast.walk(lp) if isinstance(x, ast.Continue)]
    breaks = [x for x in ast.walk(lp) if isinstance(x, ast.Break)]
    encs = [x for x in ast.walk(lp) if isinstance(x, ast.Call) and call_name(x) ==
            "encode_into_pdu"]
    if conts:
        run.violation(R, f.qual, "skips-instead-of-stopping",
                      f"`continue` at line {conts[0].lineno}: a parameter that is not constant is "
                      "skipped and later constants are still added, so the result is no longer a "
                      "prefix of the encoded PDU", f"{f.module.rel}:{conts[0].lineno}")
    elif breaks and encs:
        # every iteration either encodes a constant or breaks
        en = cfg.node_of(_stmt(f.node, encs[0]))
        txt = conj_test(path_conditions(cfg, en))
        want_full = norm_test(ast.parse(
            "isinstance(param, MatchingRequestParameter) and "
            "param.request_byte_position < len(request_prefix) or "
            "isinstance(param, (CodedConstParameter, PhysicalConstantParameter))",
            mode="eval").body)
        ok = txt == want_full
        if ok:
            run.ok(R, f.qual, "constants (and matching-request parameters inside the request "
                   "prefix) are encoded; the first other parameter ends the prefix",
                   f"{f.module.rel}:{lp.lineno}")
        else:
            run.violation(R, f.qual, "constant-test",
                          f"parameters are added to the prefix under `{txt}`", f.loc)
    else:
        run.violation(R, f.qual, "never-stops", "the loop does not stop at the first parameter "
                      "that is not constant", f.loc)
    rets = [ast.unparse(r.value) for r in walk_no_nested(f.node) if isinstance(r, ast.Return)]
    if rets == ["encode_state.coded_message"]:
        run.ok(R, f.qual, "returns the bytes encoded so far", f.loc)
    else:
        run.violation(R, f.qual, "return", f"returns {rets}", f.loc)


def _binner(prog: Program, run: Run) -> None:
    R = "C06.R5"
    ci = prog.cls("ServiceBinner")
    f = ci.methods.get("__extract_sid")
    if f is None:
        raise AnalysisError("ServiceBinner.__extract_sid not found")
    C = "ServiceBinner.__extract_sid"
    loops = [l for l in walk_no_nested(f.node) if isinstance(l, ast.For) and "parameters" in
             ast.unparse(l.iter)]
    if len(loops) != 1:
        raise AnalysisError("ServiceBinner.__extract_sid: parameter loop not found")
    lp = loops[0]
    pv = ast.unparse(lp.target)
    # one iteration, symbolically: the loop-carried `prefix` / `cursor` stay free names
    rets = symbolic_block(lp.body)
    sid = [(c, e) for c, e, r in rets if e is not None and not (
        isinstance(e, ast.Constant) and e.value is None)]
    none_paths = [(c, e) for c, e, r in rets if isinstance(e, ast.Constant) and e.value is None]
    want = normalize(ast.parse(
        f"(((prefix << L) | ({pv}.coded_value & ((1 << L) - 1))) >> (cursor + L - 8)) & 255",
        mode="eval").body)

    def env(node: ast.AST):
        if isinstance(node, ast.Call) and call_name(node) == "get_static_bit_length":
            return Rat(Poly.atom("L"))
        return None
    if len(sid) == 1:
        conds, e = sid[0]
        got = normalize(e, env)
        if got.same(want):
            run.ok(R, C, "SID = most significant byte of the leading constants concatenated most "
                   "significant first: ((prefix << n | value & mask) >> (bits - 8)) & 0xff",
                   f"{f.module.rel}:{lp.lineno}")
        else:
            run.violation(R, C, "sid-formula",
                          f"one iteration returns `{' '.join(ast.unparse(e).split())[:160]}`, "
                          "which is not ((prefix << n | value & ((1 << n) - 1)) >> "
                          "(cursor + n - 8)) & 0xff: the service is filed under a wrong SID",
                          f"{f.module.rel}:{lp.lineno}")
        ctxt = conj_test(conds, env)
        need = [norm_test(ast.parse(t, mode="eval").body, env) for t in (
            f"isinstance({pv}, CodedConstParameter)", f"isinstance({pv}.coded_value, int)",
            "cursor + L >= 8")]
        if all(n_ in ctxt for n_ in need):
            run.ok(R, C, "only leading CODED-CONST parameters with integer values contribute; "
                   "the SID is returned as soon as 8 bits are known", f"{f.module.rel}:{lp.lineno}")
        else:
            run.violation(R, C, "sid", "the SID is not the first byte built from leading "
                          f"CODED-CONST parameters only (returned under `{ctxt}`)", f.loc)
    else:
        run.violation(R, C, "sid", f"expected exactly one path of an iteration that returns a "
                      f"SID, found {len(sid)}", f.loc)
    # `break` out of the loop when all that follows the loop is `return None` is the same exit
    after_none = False
    blk = f.node.body
    if lp in blk:
        rest = blk[blk.index(lp) + 1:]
        after_none = not rest or (len(rest) == 1 and isinstance(rest[0], ast.Return) and (
            rest[0].value is None or (isinstance(rest[0].value, ast.Constant) and
                                      rest[0].value.value is None)))
    break_none = False
    if after_none and not lp.orelse:
        bcfg = CFG(f.node)
        for b_ in ast.walk(lp):
            if isinstance(b_, ast.Break):
                cs = bcfg.branch_conditions(bcfg.node_of(b_))
                if any("CodedConstParameter" in ast.unparse(t) for t, _p in cs):
                    break_none = True
    if break_none or any("CodedConstParameter" in conj_test(c) for c, _e in none_paths):
        run.ok(R, C, "a non-constant leading parameter means: no SID", f.loc)
    else:
        run.violation(R, C, "non-constant-skipped", "a parameter that is not a CODED-CONST does "
                      "not end the search with `None`", f.loc)
    init = ci.methods.get("__init__")
    filed = False
    if init is not None:
        for lp_ in [l for l in walk_no_nested(init.node) if isinstance(l, ast.For) and isinstance(
                l.target, ast.Name)]:
            sv = lp_.target.id
            # an append of the service to <groups>[k] where k is (a local bound to) the SID
            # extracted from that same service
            for x in ast.walk(lp_):
                if isinstance(x, ast.Call) and isinstance(x.func, ast.Attribute) and \
                        x.func.attr == "append" and [ast.unparse(a) for a in x.args] == [sv]:
                    recv = x.func.value
                    key = None
                    if isinstance(recv, ast.Subscript):
                        key = recv.slice
                    elif isinstance(recv, ast.Call) and call_name(recv) in ("setdefault", "get") \
                            and recv.args:
                        key = recv.args[0]
                    if key is None:
                        continue
                    k2 = common.resolve_locals(lp_, key)
                    if isinstance(k2, ast.Call) and call_name(k2) in (
                            "__extract_sid", "_ServiceBinner__extract_sid") and [
                                ast.unparse(a) for a in k2.args] == [sv]:
                        filed = True
    if filed:
        run.ok(R, "ServiceBinner.__init__", "each service is filed under its own SID", ci.loc)
    else:
        run.violation(R, "ServiceBinner.__init__", "filing", "services are not filed under the "
                      "SID extracted from their own request", ci.loc)
