"""Parser/writer agreement on element paths: the XML path a dataclass field is parsed from
(`et_element.iterfind("A/B/C")`) must be the nesting of literal tags under which the writer
templates emit that field. Decided for the fields where both sides are plain: the field is fed by
exactly one find / iterfind path, and every template region that uses the field is literal (no
macro call inside, so all tags of the region are visible)."""
from __future__ import annotations

import ast
import re
from typing import Callable, Dict, List, Optional, Set, Tuple

from jinja2 import nodes

from ..jinjamodel import TemplateModel
from ..report import Run
from ..src import Program, walk_no_nested
from .common import resolve_locals

_TOK = re.compile(r"<(/?)([A-Za-z][A-Za-z0-9:_-]*)([^<>]*?)(/?)>|<([A-Za-z][A-Za-z0-9:_-]*)[^<>]*$")
_TAG = re.compile(r"<([A-Za-z][A-Za-z0-9:_-]*)")


def _attrs_of(e) -> Set[str]:
    out = {g.attr for g in e.find_all(nodes.Getattr)}
    if isinstance(e, nodes.Getattr):
        out.add(e.attr)
    return out


def _stack_of(buf: str) -> List[str]:
    st: List[str] = []
    for m in _TOK.finditer(buf):
        if m.group(5):
            st.append(m.group(5))  # a tag that is still open at the end (attribute position)
            continue
        if m.group(1):
            if m.group(2) in st:
                while st and st.pop() != m.group(2):
                    pass
        elif not m.group(4):
            st.append(m.group(2))
    return st


def _tags_in(body) -> Tuple[Set[str], bool]:
    out: Set[str] = set()
    call = False
    for n in body:
        tds = [n] if isinstance(n, nodes.TemplateData) else list(n.find_all(nodes.TemplateData))
        for td in tds:
            out |= set(_TAG.findall(td.data))
        if isinstance(n, nodes.Call) or list(n.find_all(nodes.Call)):
            call = True
    return out, call


def writer_regions(tm: TemplateModel) -> Dict[str, List[Tuple[Set[str], bool, str]]]:
    """attribute name -> [(tags around / inside the use, region contains a macro call, where)]"""
    regions: Dict[str, List[Tuple[Set[str], bool, str]]] = {}

    class Walk:
        def __init__(self, where: str):
            self.buf = ""
            self.where = where

        def body(self, body) -> None:
            for n in body:
                self.node(n)

        def node(self, n) -> None:
            if isinstance(n, nodes.Output):
                for x in n.nodes:
                    if isinstance(x, nodes.TemplateData):
                        self.buf += x.data
                    else:
                        has_call = isinstance(x, nodes.Call) or bool(list(x.find_all(nodes.Call)))
                        st = set(_stack_of(self.buf))
                        for a in _attrs_of(x):
                            regions.setdefault(a, []).append((st, has_call, self.where))
                        self.buf += "\x00"
            elif isinstance(n, nodes.For):
                t, c = _tags_in(n.body)
                st = set(_stack_of(self.buf))
                for a in _attrs_of(n.iter):
                    regions.setdefault(a, []).append((t | st, c, self.where))
                self.body(n.body)
                self.body(n.else_)
            elif isinstance(n, nodes.If):
                self.body(n.body)
                for e in n.elif_:
                    self.node(e)
                self.body(n.else_)
            elif isinstance(n, (nodes.With, nodes.Scope, nodes.FilterBlock, nodes.CallBlock)):
                self.body(getattr(n, "body", []))
    for t in tm.templates.values():
        if t.ast is None:
            continue
        for m in t.ast.find_all(nodes.Macro):
            Walk(f"{t.rel}:{m.name}").body(m.body)
        Walk(f"{t.rel}:<top>").body([n for n in t.ast.body if not isinstance(n, nodes.Macro)])
    return regions


def parsed_paths(prog: Program) -> List[Tuple[object, str, str, int]]:
    """(parser function, field, the single element path that feeds it, line)"""
    out = []
    for f in prog.iter_functions():
        if "from_et" not in f.name:
            continue
        for x in walk_no_nested(f.node):
            if not (isinstance(x, ast.Return) and isinstance(x.value, ast.Call)):
                continue
            for k in x.value.keywords:
                if k.arg is None:
                    continue
                v = resolve_locals(f.node, k.value)

                def _paths(v):
                    return [y.args[0].value for y in ast.walk(v)
                            if isinstance(y, ast.Call) and isinstance(y.func, ast.Attribute) and
                            y.func.attr in ("find", "findtext", "iterfind", "findall") and
                            y.args and isinstance(y.args[0], ast.Constant) and
                            isinstance(y.args[0].value, str)]

                paths = _paths(v)
                if not paths and isinstance(k.value, ast.Name):
                    # a list filled by loops over the elements: the loops that add to it
                    for lp in walk_no_nested(f.node):
                        if isinstance(lp, (ast.For, ast.While)) and any(
                                (isinstance(y, ast.Call) and isinstance(y.func, ast.Attribute) and
                                 y.func.attr in ("append", "extend", "add", "insert") and
                                 isinstance(y.func.value, ast.Name) and
                                 y.func.value.id == k.value.id) or
                                (isinstance(y, ast.AugAssign) and isinstance(y.target, ast.Name) and
                                 y.target.id == k.value.id) for y in ast.walk(lp)):
                            paths += _paths(lp)
                if len(paths) == 1:
                    out.append((f, k.arg, paths[0], k.value.lineno))
    return out


def check(prog: Program, tm: TemplateModel, run: Run, R: str,
          only: Optional[Callable[[str], bool]] = None) -> int:
    regions = writer_regions(tm)
    n = 0
    for f, field, path, line in parsed_paths(prog):
        cname = f.cls.name if f.cls is not None else f.qual
        if only is not None and not only(cname):
            continue
        regs = regions.get(field)
        if not regs or any(c for _t, c, _w in regs):
            continue  # not written under this name, or written through a macro (tags not visible)
        tags = [s for s in path.split("/") if s and s not in (".", "..", "*")]
        n += 1
        if any(all(t in r for t in tags) for r, _c, _w in regs):
            run.ok(R, f"{cname}.{field}", f"parsed from <{path}> and written under the same "
                   "element nesting", f"{f.module.rel}:{line}")
        else:
            r0, _c, where = regs[0]
            run.violation(R, f"{cname}.{field}", "element-path-differs",
                          f"`{field}` is parsed from <{path}>, but the writer ({where}) emits it "
                          f"under {sorted(r0)}: what is read is not what was written "
                          "(wrong element name, or two fields swapped)",
                          f"{f.module.rel}:{line}")
    return n
