"""C11 — writing a database to PDX and loading it back preserves it (parser <-> writer)."""
from __future__ import annotations

import ast
import os
import re
from typing import Dict, List, Optional, Set, Tuple

from jinja2 import nodes

from ..exprnorm import norm_test
from ..jinjamodel import Macro, Out, TemplateModel, _expr_text
from ..jinjatypes import TemplateTyper
from ..report import Run
from ..src import AnalysisError, ClassInfo, Program, call_name, stmt_key, walk_no_nested
from ..xmlread import parser_table
from . import common

EXPLANATION = (
    "The jinja2 templates are parsed (never rendered) into a model of macros, import aliases and "
    "expression outputs with their enclosing XML element / attribute. The classes of the values "
    "flowing through the templates are inferred from the Python annotations (render variables of "
    "write_pdx_file -> attribute accesses -> loops / set -> macro parameters, joined over all "
    "call sites to a fixpoint). The *from_et* parsers are scanned for the XML names they read and, "
    "by def-use, the dataclass field each one flows into. Rules: (R0) every template parses; "
    "every alias.macro() call resolves to an imported file defining the macro with a compatible "
    "arity; every global, name and attribute used exists; (R1) for every (class, parsed field) "
    "pair some template writes the field from an object of that class; every XML name a parser "
    "reads or dispatches on is emitted; an element wrapping a field is paired with the field the "
    "parser stores it in; (R2) free-text fields are XML-escaped and make_xml_attrib escapes; (R3) "
    "every ID-REF is accompanied by DOCREF/DOCTYPE taken from ref_docs[0]; (R4) a guarded block "
    "writes the attribute it tested, no write depends on the value of another parsed attribute, "
    "and if/elif chains only range over alternatives of one choice; (R5) the three loaders "
    "classify file names by the same tests; (R6) the writer memoises nothing across databases.")
ASSUMPTIONS = [
    "structural equality of a reloaded database, byte-identical rewrites and file-order "
    "independence are not decided",
    "the derived-accessor exemptions (a template writes row.key for key_raw, etc.) are listed in "
    "DERIVED with one line of reason each",
]

TOP_LEVEL = ["diag_layer_container.odx-d.xml.jinja2", "comparam-subset.odx-cs.xml.jinja2",
             "comparam-spec.odx-c.xml.jinja2", "index.xml.jinja2"]
JINJA_BUILTINS = {"range", "dict", "lipsum", "cycler", "joiner", "namespace", "loop", "varargs",
                  "kwargs", "caller", "true", "false", "none", "True", "False", "None"}

# raw field -> accessor the templates legitimately write instead
DERIVED: Dict[Tuple[str, str], str] = {
    ("TableRow", "key_raw"): "written through row.key (the parsed key)",
    ("EnvironmentData", "all_value"):
        "ALL-VALUE and DTC-VALUES are a schema choice; the template writes ALL-VALUE iff there "
        "are no DTC-VALUES",
}
# identifier-like fields whose character set excludes XML meta characters (ODX schema)
IDENT_SUFFIX = ("short_name", "_snref", "_snpathref", "ref_id", "local_id", "doc_name", "oid",
                "_id", "category", "semantic", "value", "parameter_type", "dct_type", "id")


def _nested_complex_values(prog: Program, run: Run) -> None:
    """Relational rule over two sites. Writer: macro printComplexValue(cv, tag_name=<default>)
    calls itself for nested values; the set W of element names a NESTED value can get is the
    default (no second argument), the literal passed, or -- when the macro's own parameter is
    passed on -- the default plus every literal any call site passes. Parser:
    create_complex_value_from_et descends into a child when the chain over `el.tag` ends in an
    `else` (any name) or names it explicitly (set P). Violation iff W is not within P. Shapes
    that are not recognised are not decided (no alarm)."""
    import jinja2
    from jinja2 import nodes as jn
    R = "C11.R14"
    C = "printComplexValue / create_complex_value_from_et"
    tdir = os.path.join(prog.repo, "odxtools", "templates")
    env = jinja2.Environment()
    macro = None
    literals: Set[str] = set()
    for root, _d, files in os.walk(tdir):
        for fn in files:
            if not fn.endswith(".jinja2"):
                continue
            try:
                tree = env.parse(open(os.path.join(root, fn), encoding="utf-8").read())
            except jinja2.TemplateSyntaxError:
                continue
            for m in tree.find_all(jn.Macro):
                if m.name == "printComplexValue":
                    macro = m
            for c in tree.find_all(jn.Call):
                nm = c.node.name if isinstance(c.node, jn.Name) else (
                    c.node.attr if isinstance(c.node, jn.Getattr) else None)
                if nm == "printComplexValue":
                    a = c.args[1] if len(c.args) > 1 else next(
                        (k.value for k in c.kwargs if k.key == "tag_name"), None)
                    if isinstance(a, jn.Const) and isinstance(a.value, str):
                        literals.add(a.value)
    f = prog.func("odxtools.complexcomparam:create_complex_value_from_et")
    if macro is None or len(macro.args) < 2 or len(macro.defaults) < 1 or not isinstance(
            macro.defaults[-1], jn.Const):
        run.ok(R, C, "writer macro not of the recognised recursive form: not decided", f.loc)
        return
    pname = macro.args[1].name
    default = macro.defaults[-1].value
    W: Set[str] = set()
    for c in macro.find_all(jn.Call):
        if isinstance(c.node, jn.Name) and c.node.name == "printComplexValue":
            a = c.args[1] if len(c.args) > 1 else next(
                (k.value for k in c.kwargs if k.key == pname), None)
            if a is None:
                W.add(default)
            elif isinstance(a, jn.Const):
                W.add(str(a.value))
            elif isinstance(a, jn.Name) and a.name == pname:
                W |= {default} | literals
            else:
                run.ok(R, C, "nested element name is computed: not decided", f.loc)
                return
    # parser: the if / elif chain over the child's tag inside the loop
    P: Optional[Set[str]] = None
    for loop in [x for x in ast.walk(f.node) if isinstance(x, ast.For)]:
        for st in loop.body:
            if not isinstance(st, ast.If):
                continue
            acc: Set[str] = set()
            cur: Optional[ast.stmt] = st
            any_tag = False
            while isinstance(cur, ast.If):
                rec = any(isinstance(y, ast.Call) and call_name(y) == f.name
                          for b in cur.body for y in ast.walk(b))
                t = cur.test
                if rec and isinstance(t, ast.Compare) and len(t.ops) == 1 and isinstance(
                        t.ops[0], ast.Eq) and isinstance(t.comparators[0], ast.Constant):
                    acc.add(t.comparators[0].value)
                elif rec:
                    P = None
                    acc = set()
                    any_tag = True
                    break
                rest = cur.orelse
                if len(rest) == 1 and isinstance(rest[0], ast.If):
                    cur = rest[0]
                else:
                    if any(isinstance(y, ast.Call) and call_name(y) == f.name
                           for b in rest for y in ast.walk(b)):
                        any_tag = True
                    cur = None
            if any_tag:
                run.ok(R, C, f"the parser descends into every other child; nested names written: "
                       f"{sorted(W)}", f.loc)
                return
            if acc:
                P = acc
    if P is None or not W:
        run.ok(R, C, "parser / writer recursion not of the recognised form: not decided", f.loc)
        return
    if W <= P:
        run.ok(R, C, f"nested names written {sorted(W)} are all parsed {sorted(P)}", f.loc)
    else:
        run.violation(R, C, "nested-tag-not-parsed",
                      f"the writer macro emits nested complex values as {sorted(W - P)} (its "
                      f"recursive call hands `{pname}` on; call sites pass {sorted(literals)}), "
                      f"but the parser only descends into {sorted(P)} children: nested values "
                      "are dropped silently when a written file is read back", f.loc)


def check(prog: Program, run: Run) -> None:
    run.rule("C11.R0", "the writer is well formed: templates parse, macro calls and globals "
             "resolve", floor=150)
    run.rule("C11.R1", "nothing the parser reads is dropped or cross-wired by the writer",
             floor=300)
    run.rule("C11.R2", "free-text values are XML-escaped", floor=30)
    run.rule("C11.R3", "references keep their document (DOCREF / DOCTYPE)", floor=30)
    run.rule("C11.R4", "a guarded block writes the attribute it tested, and no write depends on "
             "the value of another parsed attribute", floor=50)
    run.rule("C11.R5", "the three loaders classify file names alike", floor=3)
    run.rule("C11.R6", "the writer keeps no state across databases", floor=1)
    run.rule("C11.R7", "the element path a field is parsed from is the element nesting the "
             "writer emits it under (fields with one source path and literal writer regions)",
             floor=100)
    run.rule("C11.G7", "parsers read every optional element on its own: what feeds one field is "
             "not skipped because another field's element is present", floor=100)
    run.rule("C11.R8", "integer texts are converted exactly: the converter of A_INT32 / A_UINT32 "
             "returns int(text, 0) whenever that succeeds; float() is only the fallback",
             floor=2)
    _exact_integers(prog, run)
    run.rule("C11.R14", "nested complex values: every element name the recursive writer macro "
             "can emit for a nested value is one the recursive parser descends into", floor=1)
    _nested_complex_values(prog, run)
    tm = TemplateModel(prog.repo)
    pt = parser_table(prog)
    run.info("templates", len(tm.templates))
    run.info("macros", sum(len(t.macros) for t in tm.templates.values()))
    run.info("outputs", len(tm.all_outs()))
    run.info("parsers", len(pt))
    _well_formed(prog, tm, run)
    ty = TemplateTyper(prog, tm)
    run.info("typed_accesses", len(ty.accesses))
    run.info("untyped_accesses", len(ty.untyped))
    _typed_names(tm, ty, run)
    _nothing_dropped(prog, tm, pt, ty, run)
    _escaping(prog, tm, run)
    _docref(tm, ty, run)
    _docref_fragment(prog, tm, ty, run)
    _guard_body(tm, run)
    _foreign_value_guards(tm, pt, run)
    _elif_chains(tm, pt, run)
    _ref_before_resolved(prog, tm, run)
    _loaders(prog, run)
    _document_alone(prog, run)
    _lossless_numbers(prog, tm, run)
    common.g4_no_stale_memo(prog, run, "C11.R6", ["odxtools/writepdxfile.py"])
    from . import tagpaths
    tagpaths.check(prog, tm, run, "C11.R7")
    common.g8_xsd_boolean(prog, run, "C11.G7", ["odxtools/*.py", "odxtools/**/*.py"])
    common.g10_children_only(prog, run, "C11.G7", ["odxtools/*.py", "odxtools/**/*.py"])
    _description_lines(prog, tm, run)
    # xsd:choice groups of the ODX schema: exactly one of the elements occurs
    common.g7_independent_elements(prog, run, "C11.G7", ["odxtools/*.py", "odxtools/**/*.py"],
                                   choices=[{"OUT-PARAM-IF-SNREF", "OUT-PARAM-IF-SNPATHREF"}])


def _exact_integers(prog: Program, run: Run) -> None:
    """The writer emits integers in full (`{{ value }}` of a python int); reading them back
    through float() rounds everything beyond 2**53 (and accepts '1e3', 'nan' ...)."""
    R = "C11.R8"
    mod = prog.module("odxtools.odxtypes")
    table = None
    for st in mod.tree.body:
        t = st.targets[0] if isinstance(st, ast.Assign) else getattr(st, "target", None)
        if isinstance(st, (ast.Assign, ast.AnnAssign)) and isinstance(t, ast.Name) and \
                t.id == "_PARSE_ODX_TYPE" and isinstance(st.value, ast.Dict):
            table = st.value
    if table is None:
        raise AnalysisError("odxtypes._PARSE_ODX_TYPE not found")
    conv: Dict[str, str] = {}
    for k, v in zip(table.keys, table.values):
        if isinstance(k, ast.Constant):
            conv[k.value] = ast.unparse(v)
    for tname in ("A_INT32", "A_UINT32"):
        fn = conv.get(tname)
        f = prog.func(f"odxtools.odxtypes:{fn}") if fn and fn.isidentifier() and any(
            g.name == fn and g.cls is None and g.module is mod for g in prog.iter_functions()) \
            else None
        if f is None:
            if fn == "int":
                run.ok(R, f"_PARSE_ODX_TYPE[{tname}]", "int()", f"{mod.rel}:{table.lineno}")
            else:
                run.violation(R, f"_PARSE_ODX_TYPE[{tname}]", "converter",
                              f"integers of type {tname} are converted with `{fn}`, which is "
                              "not an integer parser", f"{mod.rel}:{table.lineno}")
            continue
        p = f.params()[0]
        exact = [t for t in walk_no_nested(f.node) if isinstance(t, ast.Try) and t.body and
                 isinstance(t.body[0], (ast.Return, ast.Assign)) and isinstance(
                     t.body[0].value, ast.Call) and
                 call_name(t.body[0].value) == "int" and t.body[0].value.args and
                 ast.unparse(t.body[0].value.args[0]) == p]
        floats = [x for x in walk_no_nested(f.node) if isinstance(x, ast.Call) and
                  call_name(x) == "float"]
        direct = [r for r in f.node.body if isinstance(r, ast.Return) and isinstance(
            r.value, ast.Call) and call_name(r.value) == "int" and r.value.args and
                  ast.unparse(r.value.args[0]) == p]
        inside = all(any(any(y is x for s_ in h.body for y in ast.walk(s_))
                         for t in exact for h in t.handlers) for x in floats)
        if (exact and inside) or (direct and not floats):
            run.ok(R, f"{fn}[{tname}]", f"returns int({p}, ...) when that succeeds; float() only "
                   "in its handler", f.loc)
        else:
            run.violation(R, f"{fn}[{tname}]", "integer-through-float",
                          f"{fn} does not return int({p}, 0) first: an integer text is routed "
                          "through float(), which rounds values beyond 2**53 -- limits, "
                          "constants and coded values of the written database come back "
                          "altered", f.loc)


# ----------------------------------------------------------------------- R0
def _well_formed(prog: Program, tm: TemplateModel, run: Run) -> None:
    R = "C11.R0"
    wp = prog.module("odxtools.writepdxfile")
    registered = set()
    for x in ast.walk(wp.tree):
        if isinstance(x, ast.Assign) and isinstance(x.targets[0], ast.Subscript) and \
                "globals" in ast.unparse(x.targets[0].value) and isinstance(
                    x.targets[0].slice, ast.Constant):
            registered.add(x.targets[0].slice.value)
    render_vars = set()
    for x in ast.walk(wp.tree):
        if isinstance(x, ast.Assign) and isinstance(x.targets[0], ast.Subscript) and \
                ast.unparse(x.targets[0].value) == "vars" and isinstance(x.targets[0].slice,
                                                                          ast.Constant):
            render_vars.add(x.targets[0].slice.value)
    roots = set()
    for x in ast.walk(wp.tree):
        if isinstance(x, ast.Call) and call_name(x) == "get_template" and x.args and isinstance(
                x.args[0], ast.Constant):
            roots.add(x.args[0].value)
    for r in sorted(roots):
        if r in tm.templates:
            run.ok(R, r, "root template exists", f"odxtools/templates/{r}")
        else:
            run.violation(R, r, "root-missing", f"write_pdx_file renders `{r}`, which does not "
                          "exist", wp.rel)
    for t in tm.templates.values():
        where = f"odxtools/templates/{t.rel}"
        if t.error is not None:
            run.violation(R, t.rel, "syntax-error",
                          f"the template does not parse ({t.error}): every database containing "
                          "the elements it writes cannot be written at all", where)
            continue
        run.ok(R, t.rel, "parses", where)
        for d in t.ast.find_all(nodes.TemplateData):
            for m_ in re.finditer(r"%\}\}|\{\{|\}\}|\{%|%\}|^\}", d.data):
                ln = d.lineno + d.data[:m_.start()].count("\n")
                run.violation(R, t.rel, f"stray-delimiter-line{ln}",
                              f"a stray template delimiter `{m_.group(0)}` is part of the literal "
                              "text and ends up in the written document", f"{where}:{ln}")
        # imports resolve
        for alias, target in t.imports.items():
            if target not in tm.templates:
                run.violation(R, t.rel, f"import-{alias}-missing",
                              f"imports `{target}` as {alias}, which does not exist", where)
        local_macros = set(t.macros)
        for m in list(t.macros.values()) + ([t.top] if t.top else []):
            bound = set(m.params) | _bound_names(m.node)
            # alias.macro(...) calls
            for c in _calls_of(m):
                if isinstance(c.node, nodes.Getattr) and isinstance(c.node.node, nodes.Name):
                    alias, name = c.node.node.name, c.node.attr
                    if alias in bound and alias not in t.imports:
                        continue  # method call on a data object
                    if alias not in t.imports:
                        if re.fullmatch(r"p[a-z0-9]{1,12}", alias) and name.startswith("print"):
                            run.violation(R, f"{t.rel}:{m.name}", f"alias-{alias}-not-imported",
                                          f"`{alias}.{name}(...)` is called but `{alias}` is "
                                          "never imported in this template: rendering raises "
                                          "UndefinedError as soon as this branch is reached",
                                          f"{where}:{c.lineno}")
                        continue
                    tgt = tm.templates.get(t.imports[alias])
                    if tgt is None or tgt.ast is None:
                        if tgt is not None and tgt.error:
                            continue  # reported as syntax error
                        continue
                    mac = tgt.macros.get(name)
                    if mac is None:
                        run.violation(R, f"{t.rel}:{m.name}", f"macro-{alias}.{name}-undefined",
                                      f"`{alias}.{name}(...)`: `{tgt.rel}` defines no macro "
                                      f"`{name}` (it defines {sorted(tgt.macros)}): rendering "
                                      "raises UndefinedError", f"{where}:{c.lineno}")
                        continue
                    nargs = len(c.args) + len(c.kwargs)
                    ndef = len(mac.node.defaults)
                    if not (len(mac.params) - ndef <= nargs <= len(mac.params)):
                        run.violation(R, f"{t.rel}:{m.name}", f"arity-{alias}.{name}",
                                      f"`{alias}.{name}` is called with {nargs} argument(s) but "
                                      f"takes {len(mac.params)}", f"{where}:{c.lineno}")
                    else:
                        run.ok(R, f"{t.rel}:{m.name}", f"{alias}.{name}/{nargs} resolves to "
                               f"{tgt.rel}", f"{where}:{c.lineno}")
                elif isinstance(c.node, nodes.Name):
                    nm = c.node.name
                    if nm in registered or nm in JINJA_BUILTINS or nm in local_macros or \
                            nm in bound:
                        run.ok(R, f"{t.rel}:{m.name}", f"{nm}() is a registered global / local "
                               "macro", f"{where}:{c.lineno}")
                    else:
                        run.violation(R, f"{t.rel}:{m.name}", f"global-{nm}-unknown",
                                      f"`{nm}(...)` is neither a macro of this template, a jinja "
                                      "builtin, nor a global registered by write_pdx_file",
                                      f"{where}:{c.lineno}")
    # a macro file should define the macro it is named after
    for t in tm.templates.values():
        if t.ast is None or not t.rel.startswith("macros/print"):
            continue
        base = t.rel[len("macros/"):].split(".")[0]
        callers = [(o.template, a, n) for o in tm.all_outs() for a, n, _k in o.calls
                   if tm.templates[o.template].imports.get(a) == t.rel]
        wanted = {n for _t, _a, n in callers}
        for w in sorted(wanted):
            if w not in t.macros:
                pass  # reported at the call site


def _calls_of(m: Macro):
    if m.name != "<top>":
        return list(m.node.find_all(nodes.Call))
    out = []
    for n in m.node.body:
        if not isinstance(n, nodes.Macro):
            out += list(n.find_all(nodes.Call))
    return out


def _bound_names(node) -> Set[str]:
    out: Set[str] = set()
    for f in node.find_all(nodes.For):
        for n in [f.target] + list(f.target.find_all(nodes.Name)):
            if isinstance(n, nodes.Name):
                out.add(n.name)
    for a in node.find_all(nodes.Assign):
        for n in [a.target] + list(a.target.find_all(nodes.Name)):
            if isinstance(n, nodes.Name):
                out.add(n.name)
    for m in node.find_all(nodes.Macro):
        out |= {a.name for a in m.args}
    return out


def _typed_names(tm: TemplateModel, ty: TemplateTyper, run: Run) -> None:
    R = "C11.R0"
    for (rel, macro, name), ln in sorted(ty.undefined_names.items()):
        run.violation(R, f"{rel}:{macro}", f"undefined-name-{name}",
                      f"`{name}` is neither a parameter of the macro, a loop / set variable, an "
                      "import alias, a registered global nor a render variable: it evaluates to "
                      "jinja's Undefined (falsy, empty), so whatever depends on it is silently "
                      "not written", f"odxtools/templates/{rel}:{ln}")
    for (rel, macro, text), (ln, classes) in sorted(ty.undefined_attrs.items()):
        run.violation(R, f"{rel}:{macro}", f"undefined-attribute-{text}",
                      f"`{text}`: none of the receiver classes {classes} (nor a subclass) has this "
                      "attribute: it evaluates to jinja's Undefined, so the guarded block is "
                      "never written (or rendering fails)", f"odxtools/templates/{rel}:{ln}")
    for (rel, macro, text), ln in sorted(ty.dead_guards.items()):
        run.note(f"odxtools/templates/{rel}:{ln} {macro}: `{{% if {text} %}}` tests an undefined "
                 "name / attribute, the guarded block is dead code")
    n = 0
    for t in tm.templates.values():
        for m in t.macros:
            n += 1
            if (t.rel, m) in ty.macro_called:
                run.ok(R, f"{t.rel}:{m}", "macro is reachable from a root template",
                       f"odxtools/templates/{t.rel}")
            else:
                run.note(f"macro {t.rel}:{m} is never called")
    if len(ty.untyped) > 25:
        run.error(R, f"{len(ty.untyped)} attribute accesses have an untyped receiver (expected "
                  "< 25): the template type inference lost its roots")


# ----------------------------------------------------------------------- R1
def _nothing_dropped(prog: Program, tm: TemplateModel, pt, ty: TemplateTyper, run: Run) -> None:
    R = "C11.R1"
    tags, attrs = tm.emitted_names()
    # (a) field level, per class: the receiver classes of every attribute access in the
    # templates are inferred (sa.jinjatypes); field f of class C counts as written when some
    # access `.f` in an output / loop / set / argument position has a receiver class related to C
    own: Dict[str, Tuple[ClassInfo, Dict[str, Set[str]], str]] = {}
    referenced: Set[Tuple[str, str]] = set()
    for m in prog.modules.values():
        for x in ast.walk(m.tree):
            if isinstance(x, ast.Attribute) and isinstance(x.value, ast.Name):
                referenced.add((x.value.id, x.attr))
            elif isinstance(x, ast.Name):
                referenced.add(("", x.id))
    uncalled: Set[str] = set()
    for pi in pt:
        f = pi.func
        if f.cls is not None and (f.cls.name, f.name) not in referenced and not any(
                (s_.name, f.name) in referenced for s_ in prog.subclasses(f.cls, strict=True)):
            uncalled.add(f.key)
            run.note(f"{f.qual} is never called: {f.cls.name} objects are never parsed")
    for pi in pt:
        if pi.func.key in uncalled:
            continue
        for ctor, flds in pi.ctor_fields.items():
            ci = prog.resolve_class_name(pi.func.module, ctor)
            if ci is None:
                continue
            d = own.setdefault(ci.name, (ci, {}, pi.func.loc))[1]
            for f, srcs in flds.items():
                d.setdefault(f, set()).update(srcs)
    if len(own) < 100:
        run.error(R, f"only {len(own)} parsed classes found (anchor: constructor calls in from_et)")
    dropped: Dict[Tuple[str, str], List[str]] = {}
    tested: Dict[Tuple[str, str], List[str]] = {}
    info: Dict[Tuple[str, str], Tuple[Set[str], str]] = {}
    npairs = 0
    for name, (ci, _flds, loc) in sorted(own.items()):
        req: Dict[str, Tuple[ClassInfo, Set[str]]] = {}
        for b_ in prog.mro(ci):
            if b_.name in own:
                for f, srcs in own[b_.name][1].items():
                    req.setdefault(f, (b_, srcs))
        for f, (b_, srcs) in sorted(req.items()):
            npairs += 1
            key = (b_.name, f)
            info[key] = (srcs, own[b_.name][2])
            if (name, f) in DERIVED or key in DERIVED:
                run.ok(R, f"{name}.{f}", f"exempt: {DERIVED.get((name, f)) or DERIVED[key]}", loc)
                continue
            u, t_, ex = ty.covered(ci, f)
            if not u:
                # accessor property that reads the raw field
                for c in prog.mro(ci):
                    for m in c.methods.values():
                        if m.is_property and any(
                                isinstance(x, ast.Attribute) and x.attr == f and isinstance(
                                    x.value, ast.Name) and x.value.id == "self"
                                for x in ast.walk(m.node)):
                            u2, _t2, ex2 = ty.covered(ci, m.name)
                            if u2:
                                u, ex = True, ex2
            if u:
                run.ok(R, f"{name}.{f}", f"parsed from {sorted(srcs)}; written at "
                       f"{ex.template}:{ex.lineno} ({ex.text})", loc)
            elif t_:
                tested.setdefault(key, []).append(name)
            else:
                dropped.setdefault(key, []).append(name)
    run.info("class_field_pairs", npairs)
    for table, aspect, txt in ((dropped, "never-written", "is not written by any template"),
                               (tested, "only-tested", "is only tested (`{% if … %}`) by the "
                                "templates, its value is never written")):
        for (bn, f), classes in sorted(table.items()):
            srcs, loc = info[(bn, f)]
            run.violation(R, f"{bn}.{f}", f"{aspect}:{','.join(sorted(classes))}",
                          f"`{f}` (parsed from {sorted(srcs)}) {txt} for "
                          f"{', '.join(sorted(classes))}: the attribute is lost when the "
                          "database is written", loc)
    # (b) name level: every XML name that feeds a field, and every tag a parser dispatches on,
    # is emitted by some template -- unless the same field has another source of the same kind
    # that is emitted (an accepted legacy spelling such as VALUE / SIMPLE-VALUE)
    names_seen: Set[Tuple[str, str]] = set()
    for pi in pt:
        if pi.func.key in uncalled:
            continue
        kinds: Dict[str, Set[str]] = {}
        for n, kind, _ln in pi.reads:
            kinds.setdefault(n, set()).add(kind)
        feeding: Dict[str, Set[str]] = {}
        for f, srcs in pi.field_sources.items():
            for n in srcs:
                feeding.setdefault(n, set()).add(f)
        dispatch = {k.value for x in ast.walk(pi.func.node)
                    if isinstance(x, ast.Compare) and isinstance(x.left, ast.Attribute) and
                    x.left.attr == "tag" for c in x.comparators for k in ast.walk(c)
                    if isinstance(k, ast.Constant) and isinstance(k.value, str)}
        for n, kind, ln in pi.reads:
            if (n, kind) in names_seen:
                continue
            pool = tags if kind == "elem" else attrs
            C = f"{'<' + n + '>' if kind == 'elem' else n + '='}"
            where = f"{pi.func.module.rel}:{ln}"
            if n in pool or (kind == "elem" and n in attrs) or n.startswith("{"):
                names_seen.add((n, kind))
                run.ok(R, C, f"read by {pi.cls} and emitted by a template", where)
                continue
            if n not in feeding and n not in dispatch:
                continue  # read only to test / warn (e.g. unsupported SNPATHREFs)
            names_seen.add((n, kind))
            alts = set()
            for f in feeding.get(n, ()):
                alts |= {m for m in pi.field_sources[f] if m != n and kind in kinds.get(m, ()) and
                         (m in pool)}
            if alts and n not in dispatch:
                run.ok(R, C, f"legacy spelling: the field is written as {sorted(alts)}", where)
                continue
            run.violation(R, C, f"name-never-written-{pi.cls}",
                          f"the {'element' if kind == 'elem' else 'attribute'} `{n}` is read "
                          f"by {pi.func.qual} but no template emits it", where)
    # (c) pairing of directly wrapped fields: within ONE parser, the element / attribute name
    # the template puts around `.fld` must be a name that parser feeds into `fld`
    for o in tm.all_outs():
        if o.position not in ("text", "attr"):
            continue
        name = o.tag if o.position == "text" else o.attr
        e = o.expr
        while isinstance(e, nodes.Filter):
            e = e.node
        if isinstance(e, nodes.Getattr) and e.attr == "value" and isinstance(e.node,
                                                                              nodes.Getattr):
            e = e.node  # enum member: x.category.value
        if not isinstance(e, nodes.Getattr) or name is None:
            continue
        fld = e.attr
        C = f"{o.template}:{o.macro}"
        where = f"odxtools/templates/{o.template}:{o.lineno}"
        verdicts = []
        for pi in pt:
            fs = pi.field_sources
            if fld not in fs:
                continue
            owners = [f for f, srcs in fs.items() if name in srcs]
            if not owners:
                continue
            if fld in owners:
                verdicts.append(("ok", pi))
            elif not any(f.endswith("_raw") and f[:-4] == fld for f in owners):
                verdicts.append((owners, pi))
        if not verdicts:
            continue
        if any(v == "ok" for v, _p in verdicts):
            run.ok(R, C, f"{name} <- .{fld} matches {[p.cls for v, p in verdicts if v == 'ok'][0]}"
                   ".from_et", where)
            continue
        owners, pi = verdicts[0]
        run.violation(R, C, f"cross-wired-{name}-{fld}",
                      f"`{name}` is written from `.{fld}`, but {pi.func.qual} stores `{name}` in "
                      f"{sorted(owners)} and fills `{fld}` from {sorted(pi.field_sources[fld])}: "
                      "after a write/read cycle the value ends up in another attribute",
                      where, o.text)


# ----------------------------------------------------------------------- R2
def _str_fields(prog: Program) -> Set[str]:
    out: Set[str] = set()
    for ci in {id(c): c for c in prog.classes_by_mod.values()}.values():
        for n, ann, _d in ci.fields:
            if ann is None:
                continue
            a = ast.unparse(ann).replace(" ", "")
            if a in ("str", "Optional[str]") or a.startswith("Union[str,"):
                out.add(n)
    return out


def _ident_like(path: str) -> bool:
    last = path.split(".")[-1]
    return any(last == s or last.endswith(s) for s in IDENT_SUFFIX)


# outputs that are exempt from escaping, with the reason
NO_ESCAPE = {
    ("DESC", "text"): "Description.text is the serialised XHTML content of DESC, written back as "
                      "markup",
    ("V", "v"): "V is xsd:double in the ODX schema",
}


def _escaping(prog: Program, tm: TemplateModel, run: Run) -> None:
    R = "C11.R2"
    sf = _str_fields(prog)
    wp = prog.func("odxtools.writepdxfile:make_xml_attrib")
    s = ast.unparse(wp.node)
    attr_escaped = "escape(" in s or "quoteattr" in s
    if attr_escaped:
        run.ok(R, "make_xml_attrib", "attribute values are escaped", wp.loc)
    else:
        run.violation(R, "make_xml_attrib", "attribute-not-escaped",
                      "make_xml_attrib() writes the attribute value verbatim: a value containing "
                      "& < or \" (e.g. an OID or TI) produces an ill-formed document or a "
                      "different value after reloading", wp.loc)
    for o in tm.all_outs():
        if o.position not in ("text", "attr"):
            continue
        e = o.expr
        escaped = any(f in ("e", "escape", "forceescape") for f in o.filters)
        while isinstance(e, nodes.Filter):
            e = e.node
        if not isinstance(e, nodes.Getattr):
            continue
        fld = e.attr
        if fld not in sf:
            continue
        name = o.tag if o.position == "text" else o.attr
        shown = f"<{name}>" if o.position == "text" else f"{name}="
        C = f"{o.template}:{o.macro}"
        where = f"odxtools/templates/{o.template}:{o.lineno}"
        if escaped:
            run.ok(R, C, f"{shown} {o.text} is escaped", where)
        elif (name, fld) in NO_ESCAPE:
            run.ok(R, C, f"{shown} {o.text}: exempt, {NO_ESCAPE[(name, fld)]}", where)
        elif _ident_like(_expr_text(e)):
            run.ok(R, C, f"{shown} {o.text}: identifier-like value (schema excludes XML meta "
                   "characters)", where)
        else:
            run.violation(R, C, f"unescaped-{name}-{fld}",
                          f"`{shown}{{{{ {o.text} }}}}` writes the free-text field `{fld}` "
                          "without `|e`: a value containing & or < yields an ill-formed document",
                          where, o.text)


# ----------------------------------------------------------------------- R3
def _docref(tm: TemplateModel, ty: TemplateTyper, run: Run) -> None:
    R = "C11.R3"
    for m in tm.all_macros():
        lit = m.literal
        for o in m.outs:
            if o.position == "attr" and o.attr == "ID-REF":
                C = f"{o.template}:{o.macro}"
                where = f"odxtools/templates/{o.template}:{o.lineno}"
                # DOCREF among the sibling attributes of the same tag: look at the outputs and
                # literal text that follow within the same tag
                idx = m.outs.index(o)
                has = False
                for nxt in m.outs[idx + 1: idx + 4]:
                    if nxt.tag == o.tag and nxt.position == "attr" and nxt.attr in ("DOCREF",):
                        has = True
                if has:
                    run.ok(R, C, f"<{o.tag} ID-REF=… DOCREF=…>", where)
                else:
                    # the site is named by where the reference comes from in terms of classes
                    # and fields, not by the names the template happens to use
                    e_ = o.expr
                    while isinstance(e_, nodes.Filter):
                        e_ = e_.node
                    org = ty.origin.get(id(e_.node)) if isinstance(e_, nodes.Getattr) else None
                    run.violation(R, C, f"docref-dropped-{o.tag}:{org or o.text}",
                                  f"`<{o.tag} ID-REF=\"{{{{ {o.text} }}}}\"/>` is written without "
                                  "DOCREF/DOCTYPE although the parser stores the referenced "
                                  "document (ref_docs): a reference into another document "
                                  "fragment cannot be resolved after reloading",
                                  where, o.text)


DOCREF_ANY_FRAGMENT = {
    ("macros/printProtocol.xml.jinja2", "ProtocolRaw.comparam_spec_ref"):
        "a COMPARAM-SPEC lives in its own document category, so a loadable reference to it always "
        "carries an explicit DOCREF and ref_docs has exactly one element",
}


def _docref_fragment(prog: Program, tm: TemplateModel, ty: TemplateTyper, run: Run) -> None:
    """The document named by DOCREF is the FIRST fragment of ref_docs (for a reference without
    explicit document the later fragments name the layer that contains the reference, not the
    target's document)."""
    R = "C11.R3"
    n = 0
    for t in tm.templates.values():
        if t.ast is None:
            continue
        for g in t.ast.find_all(nodes.Getitem):
            if isinstance(g.node, nodes.Getattr) and g.node.attr == "ref_docs":
                n += 1
                where = f"odxtools/templates/{t.rel}:{g.lineno}"
                if isinstance(g.arg, nodes.Const) and g.arg.value == 0:
                    run.ok(R, t.rel, "DOCREF is taken from ref_docs[0]", where)
                elif (t.rel, ty.origin.get(id(g.node.node), "?")) in DOCREF_ANY_FRAGMENT:
                    run.ok(R, t.rel, f"{_expr_text(g)}: exempt, "
                           f"{DOCREF_ANY_FRAGMENT[(t.rel, ty.origin[id(g.node.node)])]}", where)
                else:
                    run.violation(R, t.rel, f"docref-fragment:{_expr_text(g)}",
                                  f"`{_expr_text(g)}`: DOCREF/DOCTYPE must name the first "
                                  "document fragment of the reference; any other fragment is the "
                                  "referencing layer for references without explicit DOCREF, so "
                                  "the written reference cannot be resolved", where)
    m = prog.module("odxtools.writepdxfile")
    for x in ast.walk(m.tree):
        if isinstance(x, ast.Subscript) and isinstance(x.value, ast.Attribute) and \
                x.value.attr == "ref_docs":
            n += 1
            where = f"{m.rel}:{x.lineno}"
            if isinstance(x.slice, ast.Constant) and x.slice.value == 0:
                run.ok(R, m.rel, "DOCREF is taken from ref_docs[0]", where)
            else:
                run.violation(R, m.rel, f"docref-fragment:{ast.unparse(x)}",
                              f"`{ast.unparse(x)}`: DOCREF/DOCTYPE must name the first document "
                              "fragment of the reference (see above)", where)
    if n < 2:
        run.error(R, "no ref_docs[...] access found in templates / writer")


# ----------------------------------------------------------------------- R4
def _guard_body(tm: TemplateModel, run: Run) -> None:
    R = "C11.R4"
    for t in tm.templates.values():
        if t.ast is None:
            continue
        for mac in t.ast.find_all(nodes.Macro):
            ifs = list(mac.find_all(nodes.If))
            tested_attrs: Dict[str, int] = {}

            def single_attr(test) -> Optional[Tuple[str, str]]:
                e = test
                if isinstance(e, nodes.Test) and e.name in ("none", "defined"):
                    e = e.node
                if isinstance(e, nodes.Not):
                    return None
                if isinstance(e, nodes.Compare) and len(e.ops) == 1 and isinstance(
                        e.ops[0].expr, nodes.Const) and e.ops[0].expr.value is None:
                    e = e.expr
                if isinstance(e, nodes.Getattr) and isinstance(e.node, nodes.Name):
                    return e.node.name, e.attr
                return None
            for i in ifs:
                sa = single_attr(i.test)
                if sa:
                    tested_attrs[f"{sa[0]}.{sa[1]}"] = i.lineno
            for i in ifs:
                sa = single_attr(i.test)
                if not sa:
                    continue
                obj, a = sa
                body_attrs = set()
                for n in i.body:
                    for g in [n] + list(n.find_all(nodes.Getattr)):
                        if isinstance(g, nodes.Getattr) and isinstance(g.node, nodes.Name) and \
                                g.node.name == obj:
                            body_attrs.add(g.attr)
                C = f"{t.rel}:{mac.name}"
                where = f"odxtools/templates/{t.rel}:{i.lineno}"
                if a in body_attrs or not body_attrs:
                    run.ok(R, C, f"`if {obj}.{a}` writes {obj}.{a}", where)
                    continue
                others = [b for b in body_attrs if f"{obj}.{b}" in tested_attrs and b != a]
                if others:
                    run.violation(R, C, f"guard-{a}-writes-{others[0]}",
                                  f"the block guarded by `{obj}.{a}` never writes `{obj}.{a}` but "
                                  f"writes `{obj}.{others[0]}`, which has its own guarded block "
                                  f"(line {tested_attrs[obj + '.' + others[0]]}): the wrong "
                                  "attribute is written under this element", where)
                else:
                    run.ok(R, C, f"`if {obj}.{a}` block uses {sorted(body_attrs)}", where)


def _foreign_value_guards(tm: TemplateModel, pt, run: Run) -> None:
    """The write of a parsed field must not depend on the VALUE of another parsed field of the
    same object (presence tests, type tests and tests on derived properties such as dct_type /
    parameter_type select the shape of the element and are fine)."""
    R = "C11.R4"
    xmlfields: Set[str] = set()
    for pi in pt:
        xmlfields |= set(pi.field_sources)

    def attrs_of(expr) -> Set[Tuple[str, str]]:
        out = set()
        for g in [expr] + list(expr.find_all(nodes.Getattr)):
            if isinstance(g, nodes.Getattr) and isinstance(g.node, nodes.Name):
                out.add((g.node.name, g.attr))
        return out

    def value_tests(test) -> List:
        return [c for c in [test] + list(test.find_all(nodes.Compare))
                if isinstance(c, nodes.Compare) and not all(
                    isinstance(o.expr, nodes.Const) and o.expr.value is None for o in c.ops)]

    def walk(body, guards, t, mname) -> None:
        for nd in body:
            if isinstance(nd, nodes.If):
                walk(nd.body, guards + [nd.test], t, mname)
                for e in nd.elif_:
                    walk([e], guards, t, mname)
                walk(nd.else_, guards, t, mname)
            elif isinstance(nd, (nodes.For, nodes.With, nodes.Scope, nodes.FilterBlock)):
                walk(nd.body, guards, t, mname)
            elif isinstance(nd, nodes.Output):
                for x in nd.nodes:
                    if isinstance(x, nodes.TemplateData):
                        continue
                    for (o, f) in sorted(attrs_of(x)):
                        if f not in xmlfields:
                            continue
                        C = f"{t.rel}:{mname}"
                        where = f"odxtools/templates/{t.rel}:{x.lineno}"
                        bad = None
                        for g in guards:
                            for c in value_tests(g):
                                ga = attrs_of(c)
                                if any(o2 == o and g2 == f for o2, g2 in ga):
                                    continue
                                foreign = sorted(g2 for o2, g2 in ga
                                                 if o2 == o and g2 != f and g2 in xmlfields)
                                if foreign:
                                    bad = (foreign[0], _expr_text(c))
                        if bad:
                            run.violation(R, C, f"value-guard-{f}-on-{bad[0]}",
                                          f"`{o}.{f}` is only written when `{bad[1]}` holds: the "
                                          f"parser reads `{f}` independently of `{bad[0]}`, so "
                                          "the attribute is dropped for the other values", where,
                                          _expr_text(x))
                        elif guards:
                            run.ok(R, C, f"{o}.{f} is written under presence / type tests only",
                                   where)
    for t in tm.templates.values():
        if t.ast is None:
            continue
        for mac in t.ast.find_all(nodes.Macro):
            walk(mac.body, [], t, mac.name)


# groups of attributes that are alternatives of one xsd:choice (or exclude each other by the
# ODX semantics): only these may share an if / elif chain of presence tests
CHOICES = [
    ({"structure_ref", "structure_snref", "env_data_desc_ref", "env_data_desc_snref"},
     "FIELD: xsd:choice of BASIC-STRUCTURE-(SN)REF and ENV-DATA-DESC-(SN)REF"),
    ({"sdg_caption_ref", "sdg_caption"}, "SDG: xsd:choice of SDG-CAPTION and SDG-CAPTION-REF"),
    ({"display_radix", "precision"},
     "PHYSICAL-TYPE: DISPLAY-RADIX applies to A_UINT32, PRECISION to the float types"),
]


def _stem(a: str) -> str:
    for suf in ("_snpathref", "_snref", "_ref"):
        if a.endswith(suf):
            return a[:-len(suf)]
    return a


def _ref_before_resolved(prog: Program, tm: TemplateModel, run: Run) -> None:
    """Where a class fills a field X from its reference field X_ref while resolving
    (`self.X = odxlinks.resolve(self.X_ref, ..)`), both are set for referenced objects: a template
    chain that tests both must test the reference first, or it writes a copy of the target and
    drops the reference."""
    R = "C11.R4"
    derived: Dict[str, str] = {}  # X -> X_ref
    for f in prog.iter_functions():
        if f.name != "_resolve_odxlinks":
            continue
        for x in walk_no_nested(f.node):
            if isinstance(x, ast.Assign) and isinstance(x.targets[0], ast.Attribute) and \
                    isinstance(x.targets[0].value, ast.Name) and x.targets[0].value.id == "self" \
                    and isinstance(x.value, ast.Call) and call_name(x.value) in (
                        "resolve", "resolve_lenient") and x.value.args and isinstance(
                            x.value.args[0], ast.Attribute) and isinstance(
                                x.value.args[0].value, ast.Name) and \
                    x.value.args[0].value.id == "self":
                tgt, src = x.targets[0].attr, x.value.args[0].attr
                if not tgt.startswith("_") and src.endswith("_ref"):
                    derived[tgt] = src
    n = 0

    def attr_of(test) -> Optional[str]:
        e = test
        if isinstance(e, nodes.Not):
            e = e.node
        if isinstance(e, nodes.Test):
            e = e.node
        if isinstance(e, nodes.Compare):
            e = e.expr
        return e.attr if isinstance(e, nodes.Getattr) else None
    for t in tm.templates.values():
        if t.ast is None:
            continue
        for i in t.ast.find_all(nodes.If):
            if not i.elif_:
                continue
            attrs = [attr_of(x.test) for x in [i] + list(i.elif_)]
            for a_i, a in enumerate(attrs):
                if a in derived and derived[a] in attrs:
                    n += 1
                    where = f"odxtools/templates/{t.rel}:{i.lineno}"
                    if attrs.index(derived[a]) < a_i:
                        run.ok(R, t.rel, f"`{derived[a]}` is tested before `{a}` (which is filled "
                               "in from it)", where)
                    else:
                        run.violation(R, t.rel, f"resolved-before-ref-{a}",
                                      f"the chain tests `{a}` before `{derived[a]}`, but `{a}` "
                                      "is filled in from the reference when the database is "
                                      "resolved: referenced objects are written as inline "
                                      "copies (duplicate IDs) and the reference is lost", where)
    if not derived:
        raise AnalysisError("no field that is filled in from its reference found")


def _elif_chains(tm: TemplateModel, pt, run: Run) -> None:
    """`{% if o.a %}…{% elif o.b %}…` writes b only when a is absent: legitimate for the
    alternatives of a choice (X-REF / X-SNREF, the table above), a dropped attribute for two
    independent optional attributes."""
    R = "C11.R4"
    xmlfields: Set[str] = set()
    for pi in pt:
        xmlfields |= set(pi.field_sources)

    def presence_attr(test) -> Optional[Tuple[str, str]]:
        e = test
        if isinstance(e, nodes.Not):
            e = e.node
            if isinstance(e, nodes.Test) and e.name == "none":
                e = e.node
            else:
                return None
        elif isinstance(e, nodes.Test):
            if e.name == "none":
                return None  # `x is none` selects the absent case
            return None
        elif isinstance(e, nodes.Compare) and len(e.ops) == 1 and e.ops[0].op == "ne" and \
                isinstance(e.ops[0].expr, nodes.Const) and e.ops[0].expr.value is None:
            e = e.expr
        if isinstance(e, nodes.Getattr) and isinstance(e.node, nodes.Name):
            return e.node.name, e.attr
        return None
    n = 0
    for t in tm.templates.values():
        if t.ast is None:
            continue
        for mac in t.ast.find_all(nodes.Macro):
            for i in mac.find_all(nodes.If):
                if not i.elif_:
                    continue
                pa = [presence_attr(x.test) for x in [i] + list(i.elif_)]
                fields = [p for p in pa if p is not None and p[1] in xmlfields]
                if len(fields) < 2 or len({o for o, _a in fields}) != 1:
                    continue
                n += 1
                attrs = [a for _o, a in fields]
                C = f"{t.rel}:{mac.name}"
                where = f"odxtools/templates/{t.rel}:{i.lineno}"
                if len({_stem(a) for a in attrs}) == 1:
                    run.ok(R, C, f"if/elif over {attrs}: reference kinds of one target", where)
                    continue
                grp = [why for g, why in CHOICES if set(attrs) <= g]
                if grp:
                    run.ok(R, C, f"if/elif over {attrs}: {grp[0]}", where)
                else:
                    run.violation(R, C, f"elif-drops-{attrs[1]}",
                                  f"`{fields[0][0]}.{attrs[1]}` is written only when "
                                  f"`{fields[0][0]}.{attrs[0]}` is absent (if / elif chain over "
                                  f"{attrs}); the parser reads them independently, so an object "
                                  "that has both loses the later one when the database is "
                                  "written", where)
    if n < 3:
        run.error(R, f"only {n} if/elif chains over optional attributes found in the templates")


# ----------------------------------------------------------------------- R5
def _document_alone(prog: Program, run: Run) -> None:
    """How one document is read (its MODEL-VERSION, hence COMPARAM-SPEC vs COMPARAM-SUBSET)
    depends on that document alone, not on what was loaded before it: otherwise the database
    depends on the order of the files."""
    R = "C11.R5"
    f = prog.func("Database._process_xml_tree")
    defs = [x for x in walk_no_nested(f.node) if isinstance(x, ast.Assign) and isinstance(
        x.targets[0], ast.Name) and x.targets[0].id == "model_version"]
    if not defs:
        raise AnalysisError("Database._process_xml_tree: model_version is not assigned")
    bad = [x for x in defs if any(isinstance(y, ast.Name) and y.id == "self"
                                  for y in ast.walk(common.resolve_locals(f.node, x.value)))]
    if bad:
        run.violation(R, "Database._process_xml_tree", "version-from-history",
                      f"`{stmt_key(bad[0])}`: the version a document is read with is taken from "
                      "the state of the database (the files loaded before it): the same archive "
                      "loads differently -- or not at all -- depending on the order of its "
                      "members", f"{f.module.rel}:{bad[0].lineno}", stmt_key(bad[0]))
    else:
        run.ok(R, "Database._process_xml_tree", "the version of a document is computed from the "
               "document alone", f"{f.module.rel}:{defs[0].lineno}")


def _lossless_numbers(prog: Program, tm: TemplateModel, run: Run) -> None:
    """A python float is written with `{{ value }}` (repr: shortest text that reads back to the
    same double).  A function registered as a template global that formats with a fixed
    precision (`.15g`, `%.6f`, round()) and is applied in a template loses digits."""
    R = "C11.R8"
    wp = prog.module("odxtools.writepdxfile")
    reg: Dict[str, str] = {}
    for x in ast.walk(wp.tree):
        if isinstance(x, ast.Assign) and isinstance(x.targets[0], ast.Subscript) and \
                "globals" in ast.unparse(x.targets[0].value) and isinstance(
                    x.targets[0].slice, ast.Constant) and isinstance(x.value, ast.Name):
            reg[x.targets[0].slice.value] = x.value.id
    lossy: Dict[str, str] = {}
    for g in prog.iter_functions():
        if g.module is not wp or g.name not in reg.values():
            continue
        for y in walk_no_nested(g.node):
            spec = None
            if isinstance(y, ast.FormattedValue) and y.format_spec is not None:
                spec = "".join(v.value for v in y.format_spec.values
                               if isinstance(v, ast.Constant))
            if isinstance(y, ast.Call) and call_name(y) == "format" and y.args and isinstance(
                    y.args[-1], ast.Constant) and isinstance(y.args[-1].value, str):
                spec = y.args[-1].value
            if isinstance(y, ast.BinOp) and isinstance(y.op, ast.Mod) and isinstance(
                    y.left, ast.Constant) and isinstance(y.left.value, str):
                m = re.search(r"%[-+ 0#]*\d*(\.\d+)[eEfFgG]", y.left.value)
                spec = m.group(0) if m else None
            if spec and re.search(r"\.\d+[eEfFgG%]?$", spec):
                lossy[g.name] = spec
            if isinstance(y, ast.Call) and call_name(y) == "round" and len(y.args) == 2:
                lossy[g.name] = "round()"
    used = []
    for gname, fn in reg.items():
        if fn not in lossy:
            continue
        for tname, t in tm.templates.items():
            src = getattr(t, "source", None)
            if src is None:
                import os
                pth = os.path.join(prog.repo, "odxtools", "templates", tname)
                if not os.path.exists(pth):
                    pth = os.path.join(prog.repo, "odxtools", "templates", "macros", tname)
                src = open(pth).read() if os.path.exists(pth) else ""
            for m in re.finditer(r"\b" + re.escape(gname) + r"\s*\(", src):
                used.append((tname, src.count("\n", 0, m.start()) + 1, gname, lossy[fn]))
    # ... and no template formats a value itself: `"%g"|format(v)`, `v|round`, `'%.3f' % v`
    import os
    tdir = os.path.join(prog.repo, "odxtools", "templates")
    for root_, _d, files_ in os.walk(tdir):
        for fn_ in sorted(files_):
            if not fn_.endswith(".jinja2"):
                continue
            src = open(os.path.join(root_, fn_)).read()
            rel_ = os.path.relpath(os.path.join(root_, fn_), tdir)
            for m in re.finditer(r"""["'][^"'\n]*%[-+ 0#]*\d*(?:\.\d+)?[eEfFgG][^"'\n]*["']\s*(?:\|\s*format\b|%)|\|\s*round\b""", src):
                used.append((rel_, src.count("\n", 0, m.start()) + 1, "format",
                             m.group(0)[:30]))
    # an enum member is written by its VALUE (the XML spelling, e.g. DYN-DEF-MESSAGE), never by
    # its python NAME
    for g in prog.iter_functions():
        if g.module is not wp:
            continue
        for y in walk_no_nested(g.node):
            if isinstance(y, ast.Attribute) and y.attr == "name" and isinstance(
                    y.value, ast.Name) and any(
                        isinstance(c, ast.Call) and call_name(c) == "isinstance" and len(
                            c.args) == 2 and ast.unparse(c.args[0]) == y.value.id and
                        "Enum" in ast.unparse(c.args[1]) for c in walk_no_nested(g.node)):
                run.violation(R, f"writepdxfile.{g.name}", "enum-written-by-name",
                              f"`{ast.unparse(y)}`: an enumeration member is converted to text "
                              "by its python name; the ODX spelling is its value (names cannot "
                              "contain `-`: DYN-DEF-MESSAGE would be written DYN_DEF_MESSAGE "
                              "and fails to load)", f"{wp.rel}:{y.lineno}", ast.unparse(y))
    if used:
        for tname, ln, gname, spec in used[:5]:
            run.violation(R, f"templates/{tname}", f"lossy-number-format-{gname}",
                          f"`{gname}(...)` formats with `{spec}`: a float that needs more "
                          "digits (1/60, 0.1+0.2) is written shortened and reloads as another "
                          "double", f"odxtools/templates/{tname}:{ln}", gname)
    else:
        run.ok(R, "writepdxfile globals", f"{len(reg)} template globals; none formats numbers "
               "with a fixed precision", wp.rel)


def _loaders(prog: Program, run: Run) -> None:
    R = "C11.R5"
    specs = ["Database.add_pdx_file", "odxtools.loadfile:load_files",
             "odxtools.loadfile:load_directory"]
    tables: Dict[str, Dict[str, str]] = {}
    for sp in specs:
        f = prog.func(sp)
        tab: Dict[str, str] = {}
        for x in walk_no_nested(f.node):
            if isinstance(x, ast.If):
                t = ast.unparse(x.test)
                acts = [call_name(c) for s in x.body for c in ast.walk(s)
                        if isinstance(c, ast.Call) and call_name(c) in (
                            "add_pdx_file", "add_odx_file", "add_auxiliary_file",
                            "_process_xml_tree")]
                kind = None
                if ".pdx" in t:
                    kind = "pdx"
                elif ".odx" in t:
                    m = re.search(r"startswith\('([^']+)'\)|== '([^']+)'|endswith\('([^']+)'\)", t)
                    kind = "odx:" + (m.group(0) if m else t)
                elif "index.xml" in t:
                    kind = "index"
                if kind:
                    tab[kind] = t
        tables[sp] = tab
    odx_tests = {sp: [k for k in tab if k.startswith("odx:")] for sp, tab in tables.items()}
    vals = {tuple(v) for v in odx_tests.values()}
    if len(vals) == 1 and all(v for v in odx_tests.values()):
        run.ok(R, "loaders", f"ODX documents are recognised by the same test in all loaders "
               f"({list(vals)[0][0][4:]})", "odxtools/loadfile.py")
    else:
        run.violation(R, "loaders", "odx-suffix-test-differs",
                      f"the loaders recognise ODX documents differently: {odx_tests}: the same "
                      "set of files yields a different database depending on whether it is loaded "
                      "from an archive, a directory or a list of files", "odxtools/loadfile.py")
    for sp, tab in tables.items():
        if "index" in tab:
            run.ok(R, sp, "index.xml is recognised", prog.func(sp).loc)
        else:
            run.violation(R, sp, "index-xml", "index.xml is not treated specially", prog.func(
                sp).loc)
    # case-insensitive suffix
    for sp in specs:
        f = prog.func(sp)
        s = ast.unparse(f.node)
        if ".suffix.lower()" in s:
            run.ok(R, sp, "suffixes are compared case-insensitively", f.loc)
        else:
            run.violation(R, sp, "case", "suffixes are compared case-sensitively", f.loc)


def _description_lines(prog: Program, tm, run: Run) -> None:
    """The templates re-indent the continuation lines of a description (`|indent`), so the parser
    must strip every line: otherwise the indentation of the document nesting becomes part of the
    text and grows with every write/load cycle."""
    R = "C11.R4"
    f = prog.func("Description.from_et")
    rets = [r.value for r in walk_no_nested(f.node) if isinstance(r, ast.Return) and isinstance(
        r.value, ast.Call)]
    txts = []
    for r in rets:
        for k in r.keywords:
            if k.arg == "text":
                txts.append(common.resolve_locals(f.node, k.value))
    if not txts:
        raise AnalysisError("Description.from_et: text= not found")

    def per_line_stripped(txt: ast.AST) -> bool:
        for x in ast.walk(txt):
            if isinstance(x, (ast.ListComp, ast.GeneratorExp)) and len(x.generators) == 1:
                g = x.generators[0]
                it = g.iter
                lines = isinstance(it, ast.Call) and isinstance(it.func, ast.Attribute) and (
                    it.func.attr == "splitlines" or (it.func.attr == "split" and it.args and
                                                     isinstance(it.args[0], ast.Constant) and
                                                     it.args[0].value == "\n"))
                strips = isinstance(x.elt, ast.Call) and isinstance(x.elt.func, ast.Attribute) \
                    and x.elt.func.attr == "strip" and ast.unparse(x.elt.func.value) == \
                    ast.unparse(g.target)
                if lines and strips:
                    return True
            if isinstance(x, ast.Call) and call_name(x) == "map" and len(x.args) == 2 and \
                    ast.unparse(x.args[0]) == "str.strip":
                return True
        return False
    # every way of building the description (a fast path for plain text included) strips per line
    bad = [t for t in txts if not per_line_stripped(t)]
    if not bad:
        run.ok(R, "Description.from_et", "every line of the text is stripped (the writer "
               "re-indents continuation lines)", f.loc)
    else:
        run.violation(R, "Description.from_et", "lines-not-stripped",
                      f"the description text is `{ast.unparse(bad[0])[:100]}`: the lines are not "
                      "stripped one by one, so the indentation the writer adds to continuation "
                      "lines is read back as part of the text (and grows with each cycle)",
                      f.loc)
