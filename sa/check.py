"""Entry point: ``/venv/bin/python -m sa.check <ID> --tier quick|thorough``.

Exit 0: every rule instance of the property holds (or is a listed known
finding).  Exit 1: ``VIOLATION property=<id> replay=<path>``.  Exit 2:
``ANALYSIS-ERROR`` (the checker cannot see what it needs; never a verdict).
"""
from __future__ import annotations

import argparse
import importlib
import json
import os
import sys
import traceback

from .report import Run, fail_analysis
from .src import AnalysisError, Program


def main(argv=None) -> int:
    ap = argparse.ArgumentParser()
    ap.add_argument("prop")
    ap.add_argument("--tier", default=os.environ.get("VERIF_TIER", "quick"),
                    choices=["quick", "thorough"])
    ap.add_argument("--replay", default=None)
    ap.add_argument("--repo", default=None)
    args = ap.parse_args(argv)
    prop = args.prop.upper()
    if args.repo:
        os.environ["ODXTOOLS_REPO"] = args.repo
    try:
        mod = importlib.import_module(f"sa.rules.{prop.lower()}")
    except ImportError as e:
        return fail_analysis(prop, f"no rule module: {e}")
    try:
        from . import src
        repo = os.environ.get("ODXTOOLS_REPO", "/repo")
        prog = Program(repo)
        run = Run(prop, args.tier, mod.EXPLANATION, list(mod.ASSUMPTIONS))
        if args.replay:
            with open(args.replay) as f:
                run.only_key = json.load(f)["key"]
        # a rule that cannot see what it needs ends the property's own rules (exit 2), but the
        # rules shared by all properties still run: what they find is a finding
        try:
            mod.check(prog, run)
        except AnalysisError as e:
            run.errors.append(str(e))
            run.floors = {}
        from .rules import shared
        shared.run_shared(prog, run, prop)
        if args.tier == "thorough" and hasattr(mod, "thorough"):
            mod.thorough(prog, run)
        return run.finish()
    except AnalysisError as e:
        return fail_analysis(prop, str(e))
    except Exception as e:  # a crash of the checker is never a verdict
        traceback.print_exc()
        return fail_analysis(prop, f"checker crashed: {type(e).__name__}: {e}")


if __name__ == "__main__":
    sys.exit(main())
