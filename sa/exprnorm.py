"""Expression normal forms: rational functions over symbolic atoms.

``normalize(expr, env)`` turns a Python arithmetic expression into a quotient
of two multivariate polynomials with rational coefficients over *atoms*
(names, attribute chains, uninterpreted function applications).  Two
expressions are *the same formula* iff ``a.num*b.den == b.num*a.den``.

``1 << n`` becomes the atom ``2^[n]`` with the integer part of the exponent
pulled into the coefficient, so ``(1 << (n-1)) * 2 == 1 << n``.

This is algebra on single expressions (no path exploration, no solver).
"""
from __future__ import annotations

import ast
from fractions import Fraction
from typing import Callable, Dict, Optional, Tuple

Mono = Tuple[Tuple[str, int], ...]  # sorted ((atom, power), ...)


class Poly:
    __slots__ = ("t",)

    def __init__(self, terms: Optional[Dict[Mono, Fraction]] = None):
        self.t: Dict[Mono, Fraction] = {k: v for k, v in (terms or {}).items() if v != 0}

    @staticmethod
    def const(c) -> "Poly":
        return Poly({(): Fraction(c)})

    @staticmethod
    def atom(a: str) -> "Poly":
        return Poly({((a, 1),): Fraction(1)})

    def is_const(self) -> bool:
        return all(k == () for k in self.t)

    def const_value(self) -> Optional[Fraction]:
        if not self.t:
            return Fraction(0)
        if self.is_const():
            return self.t[()]
        return None

    def __add__(self, o: "Poly") -> "Poly":
        r = dict(self.t)
        for k, v in o.t.items():
            r[k] = r.get(k, Fraction(0)) + v
        return Poly(r)

    def __neg__(self) -> "Poly":
        return Poly({k: -v for k, v in self.t.items()})

    def __sub__(self, o: "Poly") -> "Poly":
        return self + (-o)

    def __mul__(self, o: "Poly") -> "Poly":
        r: Dict[Mono, Fraction] = {}
        for k1, v1 in self.t.items():
            for k2, v2 in o.t.items():
                k, c = _mul_mono(k1, k2)
                r[k] = r.get(k, Fraction(0)) + v1 * v2 * c
        return Poly(r)

    def __eq__(self, o: object) -> bool:
        return isinstance(o, Poly) and self.t == o.t

    def __hash__(self) -> int:  # pragma: no cover
        return hash(self.key())

    def key(self) -> str:
        if not self.t:
            return "0"
        parts = []
        for k in sorted(self.t):
            c = self.t[k]
            m = "*".join(a if p == 1 else f"{a}**{p}" for a, p in k)
            cs = str(c)
            if m:
                parts.append(m if c == 1 else f"{cs}*{m}")
            else:
                parts.append(cs)
        return " + ".join(parts)

    __repr__ = key
    __str__ = key

    def atoms(self):
        out = set()
        for k in self.t:
            for a, _p in k:
                out.add(a)
        return out


def _mul_mono(a: Mono, b: Mono) -> Tuple[Mono, Fraction]:
    d: Dict[str, int] = {}
    for at, p in a + b:
        d[at] = d.get(at, 0) + p
    # merge powers of two:  2^[e1] * 2^[e2] = 2^[e1+e2]
    pows = [(at, p) for at, p in d.items() if at.startswith("2^[")]
    coef = Fraction(1)
    if len(pows) > 1 or any(p != 1 for _a, p in pows):
        e = Poly()
        for at, p in pows:
            e = e + _POW_EXP[at] * Poly.const(p)
            del d[at]
        at, c = _pow2_atom(e)
        coef = c
        if at is not None:
            d[at] = d.get(at, 0) + 1
    return tuple(sorted((k, v) for k, v in d.items() if v != 0)), coef


_POW_EXP: Dict[str, Poly] = {}


def _pow2_atom(e: Poly) -> Tuple[Optional[str], Fraction]:
    """2**e as (atom or None, coefficient): the integer constant part of the
    exponent goes into the coefficient."""
    c = e.t.get((), Fraction(0))
    coef = Fraction(1)
    rest = e
    if c.denominator == 1:
        coef = Fraction(2) ** int(c)
        rest = e - Poly.const(c)
    if not rest.t:
        return None, coef
    at = f"2^[{rest.key()}]"
    _POW_EXP[at] = rest
    return at, coef


class Rat:
    __slots__ = ("num", "den")

    def __init__(self, num: Poly, den: Optional[Poly] = None):
        self.num = num
        self.den = den if den is not None else Poly.const(1)

    def __add__(self, o: "Rat") -> "Rat":
        if self.den == o.den:
            return Rat(self.num + o.num, self.den)
        return Rat(self.num * o.den + o.num * self.den, self.den * o.den)

    def __neg__(self) -> "Rat":
        return Rat(-self.num, self.den)

    def __sub__(self, o: "Rat") -> "Rat":
        return self + (-o)

    def __mul__(self, o: "Rat") -> "Rat":
        return Rat(self.num * o.num, self.den * o.den)

    def div(self, o: "Rat") -> "Rat":
        return Rat(self.num * o.den, self.den * o.num)

    def same(self, o: "Rat") -> bool:
        return self.num * o.den == o.num * self.den

    def is_poly(self) -> bool:
        return self.den.is_const() and self.den.const_value() != 0

    def as_poly(self) -> Optional[Poly]:
        if self.is_poly():
            return self.num * Poly.const(1 / self.den.const_value())  # type: ignore[operator]
        return None

    def const_value(self) -> Optional[Fraction]:
        p = self.as_poly()
        return p.const_value() if p is not None else None

    def key(self) -> str:
        p = self.as_poly()
        if p is not None:
            return p.key()
        return f"({self.num.key()}) / ({self.den.key()})"

    __repr__ = key


Env = Callable[[ast.AST], Optional["Rat"]]

FUNCS = {"abs", "round", "int", "len", "float", "min", "max", "str", "bytes", "bytearray"}


def normalize(node: ast.AST, env: Optional[Env] = None) -> Rat:
    """Normal form of an arithmetic expression.  ``env`` may map a sub-node
    (typically a Name) to an already normalised value (alias resolution)."""
    if env is not None:
        r = env(node)
        if r is not None:
            return r
    if isinstance(node, ast.Constant):
        if isinstance(node.value, bool):
            return Rat(Poly.atom(repr(node.value)))
        if isinstance(node.value, int):
            return Rat(Poly.const(node.value))
        if isinstance(node.value, float):
            return Rat(Poly.const(Fraction(str(node.value))))
        return Rat(Poly.atom(repr(node.value)))
    if isinstance(node, ast.UnaryOp):
        if isinstance(node.op, ast.USub):
            return -normalize(node.operand, env)
        if isinstance(node.op, ast.UAdd):
            return normalize(node.operand, env)
        if isinstance(node.op, ast.Invert):
            # ~x = -x - 1
            return -normalize(node.operand, env) - Rat(Poly.const(1))
        return Rat(Poly.atom(f"not({normalize(node.operand, env).key()})"))
    if isinstance(node, ast.BinOp):
        l = normalize(node.left, env)
        r = normalize(node.right, env)
        if isinstance(node.op, ast.Add):
            return l + r
        if isinstance(node.op, ast.Sub):
            return l - r
        if isinstance(node.op, ast.Mult):
            return l * r
        if isinstance(node.op, ast.Div):
            return l.div(r)
        if isinstance(node.op, ast.LShift):
            rp = r.as_poly()
            if rp is not None:
                at, c = _pow2_atom(rp)
                p = Poly.const(c) if at is None else Poly.atom(at) * Poly.const(c)
                return l * Rat(p)
        if isinstance(node.op, ast.Pow):
            lc, rc = l.const_value(), r.const_value()
            if rc is not None and rc.denominator == 1 and 0 <= rc <= 8:
                out = Rat(Poly.const(1))
                for _ in range(int(rc)):
                    out = out * l
                return out
            if lc == 2:
                rp = r.as_poly()
                if rp is not None:
                    at, c = _pow2_atom(rp)
                    return Rat(Poly.const(c) if at is None else Poly.atom(at) * Poly.const(c))
        opn = {ast.FloorDiv: "floordiv", ast.Mod: "mod", ast.RShift: "rshift",
               ast.LShift: "lshift", ast.BitAnd: "and", ast.BitOr: "or", ast.BitXor: "xor",
               ast.Pow: "pow", ast.MatMult: "matmul"}[type(node.op)]
        lk, rk = l.key(), r.key()
        if opn in ("and", "or", "xor") and rk < lk:
            lk, rk = rk, lk
        return Rat(Poly.atom(f"{opn}({lk}, {rk})"))
    if isinstance(node, ast.Call):
        fn = ast.unparse(node.func)
        args = [normalize(a, env).key() for a in node.args]
        args += [f"{k.arg}={normalize(k.value, env).key()}" for k in node.keywords]
        return Rat(Poly.atom(f"{fn}({', '.join(args)})"))
    if isinstance(node, ast.IfExp):
        return Rat(Poly.atom(f"ifexp({ast.unparse(node.test)}; {normalize(node.body, env).key()}; "
                             f"{normalize(node.orelse, env).key()})"))
    if isinstance(node, ast.BoolOp) and isinstance(node.op, ast.Or) and len(node.values) == 2:
        # `x or 0` -- optional integer defaulting to 0
        return Rat(Poly.atom(f"or0({normalize(node.values[0], env).key()}; "
                             f"{normalize(node.values[1], env).key()})"))
    if isinstance(node, ast.Subscript):
        base = ast.unparse(node.value)
        sl = node.slice
        if isinstance(sl, ast.Slice):
            lo = normalize(sl.lower, env).key() if sl.lower is not None else ""
            hi = normalize(sl.upper, env).key() if sl.upper is not None else ""
            st = normalize(sl.step, env).key() if sl.step is not None else ""
            return Rat(Poly.atom(f"{base}[{lo}:{hi}:{st}]"))
        return Rat(Poly.atom(f"{base}[{normalize(sl, env).key()}]"))
    if isinstance(node, ast.NamedExpr):
        return normalize(node.value, env)
    return Rat(Poly.atom(ast.unparse(node)))


def slice_bounds(node: ast.Subscript, env: Optional[Env] = None):
    """(base text, lower Rat, upper Rat|None) of ``x[a:b]``; None when not a plain slice."""
    sl = node.slice
    if not isinstance(sl, ast.Slice) or sl.step is not None:
        return None
    lo = normalize(sl.lower, env) if sl.lower is not None else Rat(Poly.const(0))
    hi = normalize(sl.upper, env) if sl.upper is not None else None
    return ast.unparse(node.value), lo, hi


# ------------------------------------------------------------ boolean tests
_FLIP = {ast.Lt: ast.Gt, ast.Gt: ast.Lt, ast.LtE: ast.GtE, ast.GtE: ast.LtE, ast.Eq: ast.Eq,
         ast.NotEq: ast.NotEq}
_NEG = {ast.Lt: ast.GtE, ast.Gt: ast.LtE, ast.LtE: ast.Gt, ast.GtE: ast.Lt, ast.Eq: ast.NotEq,
        ast.NotEq: ast.Eq, ast.Is: ast.IsNot, ast.IsNot: ast.Is, ast.In: ast.NotIn,
        ast.NotIn: ast.In}
_SYM = {ast.Lt: "<", ast.Gt: ">", ast.LtE: "<=", ast.GtE: ">=", ast.Eq: "==", ast.NotEq: "!=",
        ast.Is: "is", ast.IsNot: "is not", ast.In: "in", ast.NotIn: "not in"}


_MAX_ATOMS = 10


def _split_chain(node: ast.AST) -> ast.AST:
    if isinstance(node, ast.Compare) and len(node.ops) > 1:
        parts = []
        left = node.left
        for op, right in zip(node.ops, node.comparators):
            parts.append(ast.Compare(left, [op], [right]))
            left = right
        return ast.BoolOp(op=ast.And(), values=parts)
    return node


def _is_connective(node: ast.AST) -> bool:
    node = _split_chain(node)
    return isinstance(node, (ast.BoolOp, ast.IfExp)) or (
        isinstance(node, ast.UnaryOp) and isinstance(node.op, ast.Not)) or (
        isinstance(node, ast.Constant) and isinstance(node.value, bool))


def _blake(node: ast.AST, env: Optional[Env], negate: bool) -> Optional[str]:
    """Blake canonical form (the disjunction of ALL prime implicants) of a propositional
    combination of atoms: two tests get the same text iff they are the same boolean function of
    their atoms, however and/or/not/conditional expressions are nested. Atoms are leaves in
    canonical spelling; an atom and its negation are one variable. None if there are too many
    atoms."""
    atoms: dict = {}   # variable key -> (positive text, negative text)

    def leaf(n: ast.AST):
        pos, neg = norm_test(n, env, False), norm_test(n, env, True)
        if neg < pos:
            atoms.setdefault(neg, (neg, pos))
            return neg, False
        atoms.setdefault(pos, (pos, neg))
        return pos, True

    def build(n: ast.AST):
        n = _split_chain(n)
        if isinstance(n, ast.UnaryOp) and isinstance(n.op, ast.Not):
            return ("not", build(n.operand))
        if isinstance(n, ast.BoolOp):
            return ("or" if isinstance(n.op, ast.Or) else "and", [build(v) for v in n.values])
        if isinstance(n, ast.IfExp):
            return ("ite", build(n.test), build(n.body), build(n.orelse))
        if isinstance(n, ast.Constant) and isinstance(n.value, bool):
            return ("const", n.value)
        return ("atom",) + leaf(n)
    tree = build(node)
    names = sorted(atoms)
    n = len(names)
    if n > _MAX_ATOMS:
        return None
    idx = {k: i for i, k in enumerate(names)}

    def ev(t, a: int) -> bool:
        k = t[0]
        if k == "atom":
            v = bool(a >> idx[t[1]] & 1)
            return v if t[2] else not v
        if k == "not":
            return not ev(t[1], a)
        if k == "and":
            return all(ev(x, a) for x in t[1])
        if k == "or":
            return any(ev(x, a) for x in t[1])
        if k == "ite":
            return ev(t[2], a) if ev(t[1], a) else ev(t[3], a)
        return t[1]
    full = (1 << n) - 1
    minterms = {a for a in range(1 << n) if ev(tree, a) != negate}
    if not minterms:
        return "False"
    if len(minterms) == 1 << n:
        return "True"
    # Quine-McCluskey: implicants are (care mask, value)
    cur = {(full, m) for m in minterms}
    primes = set()
    while cur:
        nxt = set()
        used = set()
        lst = sorted(cur)
        by_mask: dict = {}
        for mk, v in lst:
            by_mask.setdefault(mk, set()).add(v)
        for mk, vals in by_mask.items():
            for v in vals:
                for bit in range(n):
                    if not (mk >> bit & 1):
                        continue
                    w = v ^ (1 << bit)
                    if w in vals:
                        nxt.add((mk & ~(1 << bit), v & ~(1 << bit)))
                        used.add((mk, v))
                        used.add((mk, w))
        primes |= cur - used
        cur = nxt
    terms = []
    for mk, v in primes:
        lits = []
        for i, k in enumerate(names):
            if mk >> i & 1:
                lits.append(atoms[k][0] if v >> i & 1 else atoms[k][1])
        lits = sorted(set(lits))
        terms.append(lits[0] if len(lits) == 1 else "(" + " and ".join(lits) + ")")
    terms = sorted(set(terms))
    return terms[0] if len(terms) == 1 else "(" + " or ".join(terms) + ")"


def norm_test(node: ast.AST, env: Optional[Env] = None, negate: bool = False) -> str:
    """Canonical text of a boolean test. Comparisons are written as ``lhs - rhs <op> 0`` with a
    canonical sign; combinations of tests (and / or / not / conditional expressions / chained
    comparisons) are reduced to their Blake canonical form, so that equal text means equal
    boolean function of the atoms."""
    if _is_connective(node):
        r = _blake(node, env, negate)
        if r is not None:
            return r
    if isinstance(node, ast.UnaryOp) and isinstance(node.op, ast.Not):
        return norm_test(node.operand, env, not negate)
    if isinstance(node, ast.IfExp):
        a, x, y = node.test, node.body, node.orelse
        na = ast.UnaryOp(op=ast.Not(), operand=a)
        eq = ast.BoolOp(op=ast.Or(), values=[ast.BoolOp(op=ast.And(), values=[a, x]),
                                             ast.BoolOp(op=ast.And(), values=[na, y])])
        return _syntactic(eq, env, negate)
    return _syntactic(node, env, negate)


def _syntactic(node: ast.AST, env: Optional[Env] = None, negate: bool = False) -> str:
    if isinstance(node, ast.UnaryOp) and isinstance(node.op, ast.Not):
        return norm_test(node.operand, env, not negate)
    if isinstance(node, ast.BoolOp):
        op_or = isinstance(node.op, ast.Or)
        if negate:
            op_or = not op_or
        parts: list = []

        def add(v: ast.AST, neg: bool) -> None:
            # flatten nested groups of the same (effective) operator, through `not`
            while isinstance(v, ast.UnaryOp) and isinstance(v.op, ast.Not):
                v, neg = v.operand, not neg
            if isinstance(v, ast.BoolOp) and (isinstance(v.op, ast.Or) != neg) == op_or:
                for w in v.values:
                    add(w, neg)
            else:
                parts.append(norm_test(v, env, neg))
        for v in node.values:
            add(v, negate)
        parts = sorted(set(parts))
        if len(parts) == 1:
            return parts[0]
        return "(" + (" or " if op_or else " and ").join(parts) + ")"
    if isinstance(node, ast.Compare):
        if len(node.ops) > 1:
            # a < b < c  ==  a < b and b < c
            parts = []
            left = node.left
            for op, right in zip(node.ops, node.comparators):
                parts.append(norm_test(ast.Compare(left, [op], [right]), env, negate))
                left = right
            return "(" + (" or " if negate else " and ").join(sorted(parts)) + ")"
        op = type(node.ops[0])
        if negate:
            op = _NEG[op]
        l, r = node.left, node.comparators[0]
        if op in (ast.Lt, ast.Gt, ast.LtE, ast.GtE, ast.Eq, ast.NotEq):
            d = normalize(l, env) - normalize(r, env)
            p = d.as_poly()
            if p is not None:
                k = p.key()
                nk = (-p).key()
                if nk < k:
                    k, op = nk, _FLIP[op]
                return f"{k} {_SYM[op]} 0"
            return f"{normalize(l, env).key()} {_SYM[op]} {normalize(r, env).key()}"
        if op in (ast.In, ast.NotIn) and isinstance(r, (ast.Tuple, ast.List, ast.Set)):
            items = sorted(normalize(e, env).key() for e in r.elts)
            return f"{normalize(l, env).key()} {_SYM[op]} {{{', '.join(items)}}}"
        return f"{normalize(l, env).key()} {_SYM[op]} {normalize(r, env).key()}"
    s = normalize(node, env).key()
    return f"not {s}" if negate else s


def conj_test(conds, env: Optional[Env] = None) -> str:
    """Canonical text of the conjunction of (test, polarity) pairs, e.g. the branch conditions
    under which a CFG node is reached: De Morgan applied, nested groups flattened, operands
    sorted and de-duplicated. The empty conjunction is "True"."""
    vals = []
    for t, pol in conds:
        vals.append(t if pol else ast.UnaryOp(op=ast.Not(), operand=t))
    if not vals:
        return "True"
    if len(vals) == 1:
        return norm_test(vals[0], env)
    return norm_test(ast.BoolOp(op=ast.And(), values=vals), env)
