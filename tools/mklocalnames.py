#!/usr/bin/env python3
"""Regenerate sa/local_names.json: for every function of the odxtools package the names of its
local variables with the shape of their first binding (see sa/localnames.py). Run it on the tree
the rules are written for (today's /repo); the checks use it to undo renamings of locals."""
import ast
import json
import os
import sys

HERE = os.path.dirname(os.path.dirname(os.path.abspath(__file__)))
sys.path.insert(0, HERE)
from sa.localnames import TABLE, bindings, function_keys, module_globals  # noqa: E402

repo = os.environ.get("ODXTOOLS_REPO", "/repo")
out = {}
functions = []
globs = {}
for d, dotted in ((os.path.join(repo, "odxtools"), "odxtools"),
                  (os.path.join(repo, "examples"), "examples")):
    for root, dirs, files in os.walk(d):
        dirs[:] = sorted(x for x in dirs if x != "__pycache__")
        for fn in sorted(files):
            if not fn.endswith(".py"):
                continue
            path = os.path.join(root, fn)
            sub = os.path.relpath(path, d)[:-3].replace(os.sep, ".")
            if sub.endswith("__init__"):
                sub = sub[:-len("__init__")].rstrip(".")
            name = dotted + ("." + sub if sub else "")
            tree = ast.parse(open(path, encoding="utf-8").read())
            globs[name] = sorted(set(module_globals(tree)))
            for key, f in function_keys(tree, name):
                functions.append(key)
                b = bindings(f)
                if b:
                    out[key] = [[n, s] for n, s in b]
json.dump({"locals": out, "functions": sorted(functions), "globals": globs}, open(TABLE, "w"),
          indent=0, sort_keys=True)
print(len(functions), "functions,", len(out), "with locals, recorded in", TABLE)
