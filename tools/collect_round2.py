#!/usr/bin/env python3
"""Copy sub-agent seeds from $SEED_SRC/<ID>/seed<k> (default /tmp/wt2) to
/verif/seeded/<ID>-<$SEED_OFFSET + k> (default offset 3, round $SEED_ROUND)."""
import json, os, shutil, sys
SRC = os.environ.get("SEED_SRC", "/tmp/wt2")
OFFSET = int(os.environ.get("SEED_OFFSET", "3"))
ROUND = int(os.environ.get("SEED_ROUND", "2"))
DST = os.path.join(os.path.dirname(os.path.dirname(os.path.abspath(__file__))), "seeded")
for pid in sorted(sys.argv[1:] or [d for d in os.listdir(SRC) if os.path.isdir(os.path.join(SRC, d))]):
    for k in (1, 2, 3):
        sd = os.path.join(SRC, pid, f"seed{k}")
        if not (os.path.isfile(os.path.join(sd, "patch.diff")) and
                os.path.isfile(os.path.join(sd, "demo.py"))):
            continue
        name = f"{pid}-{OFFSET + k}"
        dd = os.path.join(DST, name)
        if os.path.exists(dd):
            shutil.rmtree(dd)
        shutil.copytree(sd, dd, ignore=shutil.ignore_patterns("__pycache__", "*.pyc", "*.pdx"))
        mp = os.path.join(dd, "meta.json")
        try:
            meta = json.load(open(mp))
        except Exception:
            meta = {"property": pid}
        meta["round"] = ROUND
        json.dump(meta, open(mp, "w"), indent=1)
        print("collected", name)
