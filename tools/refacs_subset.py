#!/usr/bin/env python3
"""tools/refacs_subset.py <P1,P2,...> : run only the named checks against ALL refactorings of
refactors/ (scratch copies via tools/seeds.py); prints only the refactorings that raise an alarm."""
import sys, os, shutil, concurrent.futures as cf
sys.path.insert(0, '/verif/tools')
import seeds
props = sys.argv[1].split(',')
REF='/verif/refactors'
ids = sorted(x for x in os.listdir(REF) if os.path.isdir(os.path.join(REF,x)))
os.makedirs(seeds.WORK, exist_ok=True)
def job(rid):
    d = seeds.scratch('q-'+rid)
    try:
        rc,out = seeds.sh(f"git apply {REF}/{rid}/patch.diff", cwd=d)
        if rc: return rid, 'CONFLICT'
        bad=[]
        for p in props:
            rc,out = seeds.sh(f"{seeds.PY} -m sa.check {p} --tier quick", cwd='/verif', env={"ODXTOOLS_REPO": d, "SA_NO_EVIDENCE":"1"})
            if rc: bad.append((p, [l for l in out.splitlines() if l.startswith('  at ') or 'ANALYSIS' in l][:3]))
        return rid, bad
    finally:
        shutil.rmtree(d, ignore_errors=True)
with cf.ThreadPoolExecutor(14) as ex:
    n=0
    for rid,bad in ex.map(job, ids):
        n+=1
        if bad: print(rid, bad)
print('done', n)
shutil.rmtree(seeds.WORK, ignore_errors=True)
