#!/usr/bin/env python3
"""Refactor twins: behaviour-preserving rewrites of a scratch copy of /repo on which every check
must stay silent (exit 0, no VIOLATION, no ANALYSIS-ERROR).

  tools/twins.py [kind ...]     kinds: unparse rename flip all (default: all)

unparse : every module is replaced by ast.unparse(ast.parse(src)) (layout, quotes, parentheses,
          comments and line numbers change; the AST does not)
rename  : every local variable (not parameters, not globals/nonlocals, not names used in nested
          functions or comprehensions' outer scope captures) is renamed to <name>_v
flip    : comparisons `a < b` are mirrored to `b > a` (and <=, >, >=, ==, != likewise) when both
          operands are side-effect free names / attributes / constants
Scratch copies live under /tmp/twinwork and are removed afterwards.
"""
import ast
import concurrent.futures as cf
import json
import os
import shutil
import subprocess
import sys

VERIF = os.path.dirname(os.path.dirname(os.path.abspath(__file__)))
WORK = f"/tmp/twinwork-{os.getpid()}"
PY = "/venv/bin/python"


def scratch(name):
    d = os.path.join(WORK, name)
    if os.path.exists(d):
        shutil.rmtree(d)
    os.makedirs(d)
    subprocess.run(f"git -C /repo ls-files -z | (cd /repo && xargs -0 cp --parents -t {d})",
                   shell=True, check=True)
    return d


def py_files(d):
    for root, _dirs, files in os.walk(os.path.join(d, "odxtools")):
        for fn in files:
            if fn.endswith(".py"):
                yield os.path.join(root, fn)


# ---------------------------------------------------------------- transformations
def t_unparse(src: str) -> str:
    return ast.unparse(ast.parse(src)) + "\n"


class _Locals(ast.NodeVisitor):
    """names assigned in a function body (not nested defs), minus params/global/nonlocal"""

    def __init__(self, fn):
        self.fn = fn
        self.assigned = set()
        self.banned = set()
        a = fn.args
        for x in a.posonlyargs + a.args + a.kwonlyargs:
            self.banned.add(x.arg)
        if a.vararg:
            self.banned.add(a.vararg.arg)
        if a.kwarg:
            self.banned.add(a.kwarg.arg)
        for st in fn.body:
            self.visit(st)

    def visit_FunctionDef(self, node):
        # nested function: every name it uses is banned from renaming (closures)
        if hasattr(node, "name"):
            self.banned.add(node.name)
        for x in ast.walk(node):
            if isinstance(x, ast.Name):
                self.banned.add(x.id)
    visit_AsyncFunctionDef = visit_FunctionDef
    visit_Lambda = visit_FunctionDef

    def visit_ClassDef(self, node):
        self.banned.add(node.name)
        for x in ast.walk(node):
            if isinstance(x, ast.Name):
                self.banned.add(x.id)

    def visit_Global(self, node):
        self.banned.update(node.names)
    visit_Nonlocal = visit_Global

    def visit_Name(self, node):
        if isinstance(node.ctx, (ast.Store, ast.Del)):
            self.assigned.add(node.id)

    def visit_Import(self, node):
        for a in node.names:
            self.banned.add((a.asname or a.name).split(".")[0])
    visit_ImportFrom = visit_Import

    def visit_ExceptHandler(self, node):
        if node.name:
            self.banned.add(node.name)
        self.generic_visit(node)


class _Rename(ast.NodeTransformer):
    def __init__(self, mapping):
        self.m = mapping

    def visit_Name(self, node):
        if node.id in self.m:
            return ast.copy_location(ast.Name(id=self.m[node.id], ctx=node.ctx), node)
        return node

    def visit_FunctionDef(self, node):
        return node  # do not descend into nested functions
    visit_AsyncFunctionDef = visit_FunctionDef
    visit_Lambda = visit_FunctionDef
    visit_ClassDef = visit_FunctionDef


def t_rename(src: str) -> str:
    tree = ast.parse(src)
    for fn in [n for n in ast.walk(tree) if isinstance(n, (ast.FunctionDef,
                                                           ast.AsyncFunctionDef))]:
        lo = _Locals(fn)
        names = {n for n in lo.assigned - lo.banned if not n.startswith("__")}
        # keyword arguments of calls are ast.keyword.arg (str), not Names: unaffected
        if not names:
            continue
        mapping = {n: n + "_v" for n in names}
        r = _Rename(mapping)
        fn.body = [r.visit(st) for st in fn.body]
    return ast.unparse(tree) + "\n"


_MIRROR = {ast.Lt: ast.Gt, ast.Gt: ast.Lt, ast.LtE: ast.GtE, ast.GtE: ast.LtE, ast.Eq: ast.Eq,
           ast.NotEq: ast.NotEq}


def _pure(e):
    return isinstance(e, (ast.Name, ast.Constant)) or (
        isinstance(e, ast.Attribute) and _pure(e.value))


class _Flip(ast.NodeTransformer):
    def visit_Compare(self, node):
        self.generic_visit(node)
        if len(node.ops) == 1 and type(node.ops[0]) in _MIRROR and _pure(node.left) and _pure(
                node.comparators[0]) and not (isinstance(node.comparators[0], ast.Constant) and
                                              node.comparators[0].value is None):
            return ast.copy_location(ast.Compare(left=node.comparators[0],
                                                 ops=[_MIRROR[type(node.ops[0])]()],
                                                 comparators=[node.left]), node)
        return node


def t_flip(src: str) -> str:
    return ast.unparse(ast.fix_missing_locations(_Flip().visit(ast.parse(src)))) + "\n"


class _Invert(ast.NodeTransformer):
    """`if c: A else: B` -> `if not c: B else: A` (only plain if/else, no elif chains)"""

    def visit_If(self, node):
        self.generic_visit(node)
        if node.orelse and not (len(node.orelse) == 1 and isinstance(node.orelse[0], ast.If)):
            t = node.test
            if isinstance(t, ast.UnaryOp) and isinstance(t.op, ast.Not):
                nt = t.operand
            else:
                nt = ast.UnaryOp(op=ast.Not(), operand=t)
            return ast.copy_location(ast.If(test=nt, body=node.orelse, orelse=node.body), node)
        return node


def t_invert(src: str) -> str:
    return ast.unparse(ast.fix_missing_locations(_Invert().visit(ast.parse(src)))) + "\n"


class _NotIs(ast.NodeTransformer):
    """`x is not None` -> `not x is None`, `a not in b` -> `not a in b`, `a != b` -> `not a == b`"""

    def visit_Compare(self, node):
        self.generic_visit(node)
        if len(node.ops) == 1 and isinstance(node.ops[0], (ast.IsNot, ast.NotIn, ast.NotEq)):
            pos = {ast.IsNot: ast.Is, ast.NotIn: ast.In, ast.NotEq: ast.Eq}[type(node.ops[0])]()
            return ast.copy_location(ast.UnaryOp(op=ast.Not(), operand=ast.Compare(
                left=node.left, ops=[pos], comparators=node.comparators)), node)
        return node


def t_notis(src: str) -> str:
    return ast.unparse(ast.fix_missing_locations(_NotIs().visit(ast.parse(src)))) + "\n"


class _ElseIf(ast.NodeTransformer):
    """`elif c:` -> `else: if c:` is the same AST in Python; instead: annotate plain assignments
    of constants (`x = 0` -> `x: int = 0`) — a common typing clean-up"""

    def visit_FunctionDef(self, node):
        self.generic_visit(node)
        seen = set()
        new = []
        for st in node.body:
            if isinstance(st, ast.Assign) and len(st.targets) == 1 and isinstance(
                    st.targets[0], ast.Name) and isinstance(st.value, ast.Constant) and type(
                        st.value.value) in (int, str, bool) and st.targets[0].id not in seen:
                seen.add(st.targets[0].id)
                new.append(ast.copy_location(ast.AnnAssign(
                    target=st.targets[0], annotation=ast.Name(
                        id=type(st.value.value).__name__, ctx=ast.Load()),
                    value=st.value, simple=1), st))
            else:
                new.append(st)
        node.body = new
        return node


def t_annassign(src: str) -> str:
    return ast.unparse(ast.fix_missing_locations(_ElseIf().visit(ast.parse(src)))) + "\n"


def jinja_rename(src: str) -> str:
    """rename every macro parameter, loop variable and `set` variable of a template"""
    import jinja2
    from jinja2 import nodes
    env = jinja2.Environment()
    tree = env.parse(src)
    bound = set()
    for m in tree.find_all(nodes.Macro):
        bound |= {a.name for a in m.args}
    for f in tree.find_all(nodes.For):
        bound |= {n.name for n in [f.target] + list(f.target.find_all(nodes.Name))
                  if isinstance(n, nodes.Name)}
    for a in tree.find_all(nodes.Assign):
        bound |= {n.name for n in [a.target] + list(a.target.find_all(nodes.Name))
                  if isinstance(n, nodes.Name)}
    keep = {i.target for i in tree.find_all(nodes.Import)} | {
        m.name for m in tree.find_all(nodes.Macro)} | {"loop", "none", "true", "false", "not",
                                                        "and", "or", "in", "is", "if", "else"}
    bound -= keep
    toks = list(env.lex(src))
    out = []
    in_macro_header = False
    for i, (ln, typ, val) in enumerate(toks):
        if typ == "name" and val == "macro":
            in_macro_header = True
        if typ == "block_end":
            in_macro_header = False
        if typ == "name" and val in bound:
            prev = next((t for t in reversed(toks[:i]) if t[1] != "whitespace"), None)
            nxt = next((t for t in toks[i + 1:] if t[1] != "whitespace"), None)
            is_attr = prev is not None and prev[1] == "operator" and prev[2] == "."
            # keyword argument of a call: `name=` inside parentheses (not `set name =`)
            is_kw = nxt is not None and nxt[1] == "operator" and nxt[2] == "=" and not (
                prev is not None and prev[1] == "name" and prev[2] == "set")
            if not is_attr and (not is_kw or in_macro_header):
                val = val + "_v"
        out.append(val)
    res = "".join(out)
    env.parse(res)
    return res


KINDS = {"unparse": t_unparse, "rename": t_rename, "flip": t_flip, "invert": t_invert,
         "notis": t_notis, "annassign": t_annassign, "jrename": None}


def run_kind(kind):
    d = scratch(kind)
    try:
        if kind == "jrename":
            for root, _dirs, files in os.walk(os.path.join(d, "odxtools", "templates")):
                for fn in files:
                    if fn.endswith(".jinja2"):
                        p = os.path.join(root, fn)
                        src = open(p, encoding="utf-8").read()
                        open(p, "w", encoding="utf-8").write(jinja_rename(src))
        else:
            for p in py_files(d):
                src = open(p, encoding="utf-8").read()
                out = KINDS[kind](src)
                compile(out, p, "exec")
                open(p, "w", encoding="utf-8").write(out)
        # the twin must still pass the test suite (it is behaviour preserving)
        t = subprocess.run(f"{PY} -m pytest -q -p no:cacheprovider --timeout=900 -x tests",
                           shell=True, cwd=d, env=dict(os.environ, PYTHONPATH=d),
                           capture_output=True, text=True)
        tests = t.stdout.strip().splitlines()[-1] if t.stdout.strip() else t.stderr[-200:]
        m = json.load(open(os.path.join(VERIF, "MANIFEST.json")))
        res = {}
        for c in m["checks"]:
            pid = c["property_id"]
            r = subprocess.run(f"{PY} -m sa.check {pid} --tier quick", shell=True, cwd=VERIF,
                               env=dict(os.environ, ODXTOOLS_REPO=d, SA_NO_EVIDENCE="1"),
                               capture_output=True, text=True)
            lines = [l for l in (r.stdout + r.stderr).splitlines()
                     if l.startswith("  at ") or l.startswith("ANALYSIS-ERROR")]
            res[pid] = (r.returncode, lines)
        return kind, tests, res
    finally:
        shutil.rmtree(d, ignore_errors=True)


def main():
    kinds = [a for a in sys.argv[1:] if a in KINDS] or list(KINDS)
    os.makedirs(WORK, exist_ok=True)
    bad = 0
    try:
        with cf.ThreadPoolExecutor(len(kinds)) as ex:
            for kind, tests, res in ex.map(run_kind, kinds):
                print(f"== twin `{kind}`: tests: {tests}")
                for pid, (rc, lines) in sorted(res.items()):
                    if rc != 0:
                        bad += 1
                        print(f"  {pid}: exit {rc}  FALSE ALARM")
                        for l in lines[:8]:
                            print("     ", l.strip()[:230])
                if all(rc == 0 for rc, _l in res.values()):
                    print("  all checks silent")
    finally:
        shutil.rmtree(WORK, ignore_errors=True)
    return 1 if bad else 0


if __name__ == "__main__":
    sys.exit(main())
