#!/usr/bin/env python3
"""Regenerate /verif/MANIFEST.json from the table below (run from /verif)."""
import json
import os

HERE = os.path.dirname(os.path.dirname(os.path.abspath(__file__)))

# property -> (technique, level text, level note, design ref)
CLAIMED = {
    "C11": (
        "parser <-> writer agreement analysis: the jinja2 templates are parsed (never rendered) "
        "into macros, import aliases and typed outputs; receiver classes of every template "
        "attribute access are inferred from the Python annotations through loops, set "
        "statements and macro calls (fixpoint over call sites); the from_et parsers are scanned "
        "by def-use for the XML names feeding each dataclass field; set comparisons between "
        "the two sides, plus escaping, DOCREF, guard/body, loader-table and memoisation rules; element-path agreement (the XML path a field is parsed from vs. the nesting of literal tags the templates emit it under), parser hygiene rules (optional elements read independently, xsd:boolean spellings, children-only iteration, per-line stripping of descriptions)",
        "Decides, for every one of about 950 (class, parsed field) pairs, that some template "
        "writes the field from an object of that class; that every XML name a parser reads or "
        "dispatches on is emitted; that an element wrapping a field is paired with the field "
        "the parser stores it in; that every template parses and every alias.macro() call, "
        "global, name and attribute it uses exists; that free-text values are escaped and "
        "make_xml_attrib escapes; that ID-REFs keep DOCREF/DOCTYPE; that guarded blocks write "
        "what they test and no write depends on the value of another parsed attribute; that "
        "the three loaders classify file names by the same tests; that the writer memoises "
        "nothing across databases.",
        "Not decided: structural equality of a reloaded database, byte-identical rewrites, "
        "independence of the file order (runtime quantities). Branch-insensitive: a field "
        "written only in one type branch of a macro counts as written. Trusted: jinja2's "
        "parser, the annotation-driven typing, the tables DERIVED / NO_ESCAPE / IDENT_SUFFIX "
        "(each entry with a reason). Known findings: 59 ID-REF sites written without "
        "DOCREF/DOCTYPE (repair blocked by the output pinned in tests/test_singleecujob.py).",
        "DESIGN.md section 3, C11"),
    "C10": (
        "whole-package reference-coverage analysis: type-driven computation, from the dataclass "
        "annotations, of which sub-objects transitively hold IDs / ODXLINK references / SNREFs, "
        "checked against what the three phase methods of every class visit (with guard "
        "agreement and super() chaining); structural rules for lookup order, uniqueness, "
        "database ownership, phase order and SNREF scope; decision tables for resolve_snref and OdxLinkDatabase.update, search confined to the reference's own fragments",
        "Decides the traversal and lookup discipline of reference resolution for every class "
        "(about 1600 obligations): each reference field is consumed by a resolve call, each "
        "sub-object that needs a phase is visited by that phase under guards that agree between "
        "the phases, overrides chain to their base, resolve() searches innermost first and "
        "returns the first hit, resolve_snref requires exactly one candidate of the expected "
        "type, imported IDs go to a real copy and never overwrite, refresh orders the phases, "
        "SNREFs are looked up in the context layer's inherited view and retargeting reaches all "
        "ancestors.",
        "Not decided: which object a reference binds to in a concrete database. Trusted: the "
        "annotation unwrapping of sa/types.py and the exemption tables REF_EXEMPT / PHASE_EXEMPT "
        "(each with a reason).",
        "DESIGN.md section 3, C10"),
    "C08": (
        "writer/reader agreement rules: normal-form equality between get_static_bit_length and "
        "the bit lengths handed to the atomic codec, the decoder's byte-consumption formula in "
        "the composite static length, dominance of the size-limit checks by the content call, "
        "comparison of is_required with the encoder's missing-value branch incl. the SYSTEM "
        "parameter table, break-at-first-non-constant rule of the prefix; loop summary of the composite static length (one symbolic iteration), scenario tables for is_required vs. the encoder's treatment of a missing value, length-guard check of the matching-request slice",
        "Decides that every static description is computed from the same expressions as the "
        "codec uses: static length vs encoded/decoded length per class, the composite length "
        "formula, both-sided and live size-limit checks, is_required/is_settable vs encoder "
        "behaviour per parameter kind, required/free lists as their filters, and the constant "
        "prefix stopping at the first non-constant parameter.",
        "Not decided: lengths of dynamically sized objects; prefix equality on concrete PDUs. "
        "Known findings: condensed BIT-MASK static length, RESERVED parameters drop values.",
        "DESIGN.md section 3, C08"),
    "C06": (
        "loop-shape and handler rules over the dispatch code on its CFG (leaf-key checks of the "
        "prefix-tree walk, per-candidate try/except isolation, prefix filter normal form, "
        "per-service prefix computation, first-non-constant break, SID shift normal form)",
        "Decides the structural conditions of exact attribution: the tree walk collects every "
        "node on the path and only stops on a missing byte; each candidate (service, global "
        "negative response, coding object) is tried in its own handler covering DecodeError and "
        "nothing in a candidate loop can abort it; candidates are filtered by the byte-prefix "
        "test; the tree holds, per service, the prefixes of request, positive, negative and "
        "global negative responses computed with that service's request prefix; the constant "
        "prefix stops at the first non-constant parameter; the binner returns the first request "
        "byte; responses are looked up through their request.",
        "Not decided: attribution for concrete sets of services and messages. Known finding: "
        "services with an empty constant prefix are never found (pinned by the test suite).",
        "DESIGN.md section 3, C06"),
    "C02": (
        "symbolic normalisation of the integer encoding formulas (both directions) against the "
        "ODX table, normal-form equality of padding / byte-length / byte-reversal formulas between "
        "encoder, decoder and the static-length function, dominance check of mask positioning, "
        "who-may-write scan for the PDU buffers, decision-table check of the string encodings; scenario tables (encoding x sign) over the symbolic paths of the A_INT32 / A_UINT32 branches, byte length of the encoded value per base type, reaching-definition check of the bit cursor at every emplace_bytes call",
        "Decides the closed-form part of bit exactness: two's/one's complement and sign-magnitude "
        "formulas and the sign test, the BCD digit loops, that padding, consumed bytes and byte "
        "reversal are the same expression wherever they occur, that the used-bit mask is shifted "
        "before data and mask are reversed together, that only EncodeState writes the PDU and "
        "accumulates used bits with OR while warning exactly on intersecting bits, that both "
        "backends are bound identically and only pack/unpack_from are used, and the string codec "
        "table. A symmetric slip (same wrong formula on both sides) is still caught because each "
        "side is compared with the ODX formula, not only with its sibling.",
        "Not decided: agreement with an independent interpreter on concrete PDUs, Python codec "
        "behaviour, the C extension's semantics. Trusted: exprnorm's algebra (sa/exprnorm.py).",
        "DESIGN.md section 3, C02"),
    "C01": (
        "sibling analysis of every encode/decode pair: save/move/restore pairing by CFG "
        "must-pass-through queries, role-normalised comparison of all cursor positioning writes "
        "(incl. the zero-padding idiom) between encoder and decoder, must-pass recording of key "
        "parameters, both-directions exhaustiveness over the three factories, (type, encoding) "
        "case-set equality of emplace/extract, same-walk check of the composite codec, "
        "terminator-rule agreement; scenario tables over symbolic paths for the atomic codec branches (accepted encodings), symbolic placeholder width of key parameters, journal search direction, bit-cursor alignment of emplace_bytes callers",
        "Decides the positional/key protocol the round trip rests on, for every codec class and "
        "every path: origin, unknown-parameter flag and end-of-PDU flag are saved, changed and "
        "restored; encoder and decoder position the cursor relative to the same base and "
        "description field; keys are recorded on all returning paths; every creatable parameter, "
        "DOP and diag-coded type has both directions; both atomic codecs know the same cases; "
        "both composite walks visit the same parameter list; MIN-MAX terminators are emitted and "
        "skipped under mirrored conditions.",
        "Not decided: equality of the values themselves and whole-PDU consumption (depend on "
        "compu methods, bit packing and data). Known finding: static TABLE-KEY asymmetry.",
        "DESIGN.md section 3, C01"),
    "C04": (
        "exception-escape analysis from the encode entry points, definite-assignment analysis, "
        "block-local dominance of every value alteration by an odxraise, symbolic normalisation "
        "of the representability guards (signed range per encoding, both directions, encoded "
        "units), structural checks of the required/unknown-parameter tests and of non-settable "
        "parameter kinds, truthiness lint on Optional value types; shared pairing rule of encoder flags (C01) and bit-cursor alignment of emplace_bytes callers (C02)",
        "Decides the encoder's error discipline on every path: value-dependent raises are the "
        "library's error type, no local is read unassigned, every truncation/mask/pad/substitute "
        "is only the non-strict fall-back of a reported EncodeError, the value handed to "
        "bitstruct.pack is bounded on both sides in encoded units with the correct signed range, "
        "required/unknown parameters are checked first, non-settable kinds reject supplied "
        "values, and data and used-bit mask have the same width.",
        "Not decided: that an accepted value decodes back (C01/C02). Known findings: RESERVED "
        "parameters drop a supplied value, BIT-MASK drops masked-out bits silently, condensed "
        "BIT-MASK mask width. Trusted: call resolution by annotations.",
        "DESIGN.md section 3, C04"),
    "C05": (
        "exception-escape analysis over a class-hierarchy call graph (explicit raise sites plus "
        "an implicit may-raise catalogue, filtered by enclosing handlers, with def-use taint to "
        "separate description validation from input-triggered raises), dominance check of the "
        "truncated-PDU and MIN-LENGTH guards, handler-type check of the candidate loops; loop-condition rule for the END-OF-PDU field",
        "Decides, for every function reachable from the five decode entry points (about 150) "
        "and every path to a raise site, that an exception whose trigger is the value of the "
        "bytes being decoded belongs to the DecodeError family, that the catalogue constructs "
        "are guarded, that no byte of the PDU is read without a dominating unconditional "
        "DecodeError guard using the same length expression, and that all candidate loops catch "
        "DecodeError. This quantifies over all byte strings because it is a property of paths, "
        "not of sampled inputs.",
        "Not decided: termination of the decoding loops; exceptions from constructs outside the "
        "catalogue; raises that validate the description (listed in the evidence). Trusted: "
        "annotation-based call resolution (fallback count reported), the exemption table EXEMPT "
        "in sa/rules/c05.py.",
        "DESIGN.md section 3, C05"),
    "C07": (
        "decision-table extraction (interval types, value comparison, scale applicability, "
        "category factory, limit swap), def-use expansion of converter guards against validity "
        "predicates, and rational-normal-form comparison of the closed forms (linear segment, "
        "Horner scheme by symbolic unrolling, interpolation formula); decision tables over symbolic paths (compare_odx_values over kind x ordering, CompuScale.applies, physical limits); parse-side role table of COMPU-SCALE parts",
        "Decides the structural part of every conversion: the OPEN/CLOSED/INFINITE tables, the "
        "sign comparison per value kind, validity <=> convertibility per category and "
        "direction, the SCALE-LINEAR invertibility conditions, rounding to nearest by the role "
        "type, category exhaustiveness, slope-dependent physical limits and the algebraic form "
        "of the linear, rational and interpolated functions. All are necessary conditions of the "
        "property for every compu method and value.",
        "Not decided: numerical equality with exact rational arithmetic on concrete values "
        "(floating point). Trusted: exemption table VALIDITY_EXEMPT (description-level raises).",
        "DESIGN.md section 3, C07"),
    "C03": (
        "symbolic composition of the linear forward/inverse formulas (rational normal form), "
        "direction-wiring via def-use expansion of converter guards, rounding rule, "
        "dominance/control-dependence check of the DataObjectProperty validity gates; shared layout rules of the atomic codec (C02) and the parse-side role table of COMPU-SCALE parts",
        "Decides the mechanisms the decode-then-encode identity rests on: the linear inverse "
        "really is the algebraic inverse, every direction of every compu category uses its own "
        "role's data, integer results are rounded not truncated, and DataObjectProperty only "
        "converts values accepted by the validity gate of the same direction and encodes exactly "
        "the converted value. Narrow by design: it is the wiring, not the identity on values.",
        "Not decided: the identity itself on any concrete PDU, injectivity, RAT-FUNC inverses "
        "given by independent coefficients.",
        "DESIGN.md section 3, C03"),
    "C15": (
        "structural rules over the comparam merge and lookup (override key, merge order, "
        "recursion through the parents' computed view, protocol filter and preference), "
        "writer/reader agreement between the value parsers' omitted-value marker and the "
        "default fall-back tests (constant folding of the tests), frozen accessor table; parser hygiene rules for the comparam parsers; accessors must read through get_value()/get_subvalue()",
        "Decides necessary structural conditions of the comparam resolution for every "
        "hierarchy: per-(spec id, protocol) override with parents in ascending priority then "
        "local definitions; lookup by name and protocol name with the protocol-specific "
        "definition first; default fall-back taken exactly for the marker the parser stores "
        "for an omitted (sub-)value; each typed accessor reads the parameter it is named for, "
        "forwards the protocol and converts as specified.",
        "Not decided: values for concrete hierarchies. Trusted: the ISO comparam names of the "
        "accessor table (sa/rules/c15.py).",
        "DESIGN.md section 3, C15"),
    "C09": (
        "decision-table extraction of HierarchyElement._compute_available_objects on its CFG, "
        "category-wiring consistency check (local getter / exclusion list / result slot / public "
        "property), constant-table check of the layer-type priorities, who-may-write rule for "
        "parent objects; element-path agreement for the NOT-INHERITED lists of PARENT-REF; who-may-read rule (local getters read the raw layer only)",
        "Decides the shape of the value-inheritance mechanism for every path: parents merged by "
        "descending priority from the raw parent references, NOT-INHERITED applied per parent "
        "reference to the parent's recursive view, lower priority keeps / higher replaces / "
        "equal priority waived by local override or equality and otherwise reported, locals "
        "written last; all 17 inherited categories wired to their own getter, exclusion list, "
        "slot and property; priorities strictly ordered and complete; parents never written.",
        "Not decided: the resulting object sets of concrete hierarchies. Trusted: the ODX "
        "priority order as stated in the property; idiom recognisers of sa/rules/c09.py.",
        "DESIGN.md section 3, C09"),
    "C14": (
        "CFG rules over VariantMatcher.request_loop (control dependence of every yield on the "
        "cache-miss branch, must-pass-through of the cache update after each request, exits of "
        "the candidate loop dominated by the match record) and a decision-table check of "
        "MatchingParameter.__matches; parser rules for the pattern parsers (xsd:boolean, independent elements)",
        "Decides the request/caching discipline and the loop shape for every path of the "
        "generator: requests are the current candidate's identification request, issued only on "
        "a cache miss and cached before the next request; cached and fresh responses reach the "
        "same comparison; candidates/patterns/parameters are tried in list order; the candidate "
        "loop is left only with a recorded match; all/any accumulation has the prescribed "
        "shape; every response object is tried; values are compared by decoded type and absence "
        "is tested by identity.",
        "Not decided: outcomes over concrete ECU response histories. Trusted: idiom recognisers "
        "for the all/any flags.",
        "DESIGN.md section 3, C14"),
    "C18": (
        "mirror-pair analysis of every comparison in Comparison.compare_parameters, loop-shape "
        "rules for the classification loops, repeated-test and literal-attribute lints typed "
        "through annotations, def-use check of the metrics row, no-memoisation rule",
        "Decides necessary structural conditions of the tools' classification: every attribute "
        "the property lists is compared as the same attribute path of the new and the old "
        "parameter (no defaulting that hides a change) and the same two values are reported; "
        "request/positive/negative response parameters are paired by position; no "
        "classification branch is dead; the deleted-service loop visits every old service; the "
        "overview counts are len() of the printed layer's own collections; nothing is cached "
        "across calls.",
        "Not decided: the metamorphic relation over concrete edits. Known findings: the dead "
        "'renamed' branch and the deleted-service check nested in the new-services loop. "
        "Trusted: annotation-based receiver typing.",
        "DESIGN.md section 3, C18"),
    "C16": (
        "effect summaries of every mutator/copier of ItemAttributeList checked with "
        "must-pass-through queries on the per-method CFG; decision-table check of the collision "
        "loop, __getattr__ and _get_item_key; who-may-call rule over the whole package: no list operation that ItemAttributeList does not override is applied to an object declared as NamedItemList",
        "Decides that each operation of the property's list (append, insert, extend, remove, "
        "pop, clear, copy, deepcopy, pickle) updates the list view and the name view together on "
        "every path, for the same item; that a removal deletes exactly one name selected by "
        "comparison with the removed object; that a new name is made unique against item names "
        "and the list's own attributes; and that copies never alias the name dictionary. Since "
        "each rule holds for all paths of one operation, it holds after any history of them.",
        "Not decided: consistency is not executed over histories; list operations outside the "
        "property's list (__setitem__, __delitem__, +=, sort) are not covered. Trusted: the idiom "
        "recognisers in sa/rules/c16.py.",
        "DESIGN.md section 3, C16"),
    "C12": (
        "decision-table extraction of the PCI dispatch in decode_rx_frame compared with ISO "
        "15765-2, whole-package index discipline of the per-ID state arrays, regex-AST group "
        "check (re._parser), must-pass-through query for flow control on the CFG; who-may-write scan shared with C13; ID lists handed to the decoders are never filtered by truthiness",
        "Decides the structural part of the reassembler: the frame table (PCI nibble, u4u4/u4u12 "
        "formats, payload slices, (last+1) mod 16, completion and padding truncation), that "
        "every access to per-ID state uses the frame's receive-ID index (no shared or "
        "whole-array state), that the log regexes deliver the groups the reader converts, and "
        "that every path through IsoTpActiveDecoder.on_first_frame sends a clear-to-send frame. "
        "These are necessary conditions of the property for every schedule; the behaviour over "
        "interleavings and all lengths is not explored.",
        "Not decided: correctness over concrete interleavings / lengths 1..4095 as such. Known "
        "finding: CAN-FD SF_DL == 0 escape unsupported. Trusted: bitstruct format semantics.",
        "DESIGN.md section 3, C12"),
    "C13": (
        "exception-freedom and typestate analysis of decode_rx_frame on its CFG (dominating "
        "len(data) guards for every unpack, no state asserts, buffer used only under an "
        "is-not-None guard, reset post-dominating the yield, control dependence of state writes "
        "on the sequence check) plus a who-may-write scan of every module; length-guard analysis of the package's own telegram consumers (snoop.handle_telegram and the helpers it hands the payload to) and of enum conversions in frame callbacks, nested classes included",
        "Decides that no construct in decode_rx_frame can raise on frame data, that the "
        "reassembly buffer follows the idle/receiving typestate on every path (first frame "
        "re-initialises, completion resets, idle consecutive frames rejected), that a sequence "
        "error changes no state, and that no callback or subclass writes the buffers. This "
        "covers every frame sequence because the rules quantify over all CFG paths.",
        "Not decided: exceptions raised inside user-supplied callbacks; numeric content of "
        "reassembled telegrams (C12). Trusted: the guard recogniser (len(data) comparisons).",
        "DESIGN.md section 3, C13"),
    "C17": (
        "whole-package who-may-read / who-may-write analysis of the strict_mode flag over the "
        "ASTs (import-alias resolution, import-time vs call-time position, CFG of odxraise)",
        "Decides the whole mechanism of the property statically: nobody binds or caches "
        "odxtools.exceptions.strict_mode at import time, odxraise raises exactly when the "
        "module global is true at the time of the call, odxassert/odxrequire only delegate, "
        "every writer restores in finally, and every call-time read only guards an error "
        "report. This is a necessary and (up to reflection) sufficient structural condition "
        "for 'the switch takes effect immediately everywhere'; it does not execute anything.",
        "Not decided: the effect of the non-strict fall-back code that follows an odxraise "
        "(behaviour is undefined there by the library's own contract). Trusted: CPython's ast, "
        "the import-alias resolution of sa/src.py; reflection-based access to the flag is out "
        "of scope.",
        "DESIGN.md section 3, C17"),
}

# rules added in the later rounds, appended to the technique of each property
EXTRA = {
    "C01": "decoded values originate in extract_atomic_value (def-use), who-may-write the key "
           "tables, origin window (no positional call after the origin is restored), "
           "conversion-guard shapes of the compu methods, probe/restore must-pass-through on "
           "the exception edges, keyed look-ups by caller-supplied names",
    "C02": "origin window and probe/restore rules shared with C01",
    "C03": "conversion-guard shapes of the compu methods; bytes-like acceptance of the "
           "encoders' type tests",
    "C04": "conversion-guard shapes of the compu methods; terminator-in-value (search "
           "unconditional), float32 range, implicit UnicodeEncodeError and hash-of-value sites",
    "C05": "implicit-raise catalogue incl. numeric format specs and next() on filtered "
           "generators; progress rule for cursor-driven item loops (termination); "
           "who-may-read the PDU without a length guard",
    "C06": "candidate loops found by the call on the loop variable; prefix look-ups followed "
           "through dicts / pairs; no de-duplication under an equality that ignores the "
           "service; exception-escape analysis shared with C05",
    "C07": "conversion-guard shapes of the compu methods; agreement of the python types "
           "admitted by validity test and converter",
    "C08": "omission of an uncomputable SYSTEM parameter rejected centrally or locally",
    "C10": "type-test coverage of the retarget recursion; save/reset pairing of the consulted "
           "SnRefContext fields on the CFG (must-pass-through); derived fragment list handed "
           "to every later sub-parser",
    "C11": "exact integer conversion of A_INT32 / A_UINT32 texts; no fixed-precision number "
           "formatting in template globals; document version independent of load history",
    "C12": "soundness conditions of a remembered channel index (dominance of the store by the "
           "successful lookup)",
    "C13": "no state update reachable after a yield; None-passing callback arguments vs. "
           "numeric uses in every override; consecutive-frame shape shared with C12",
    "C14": "cache store independent of the response content; every pattern reaches its "
           "parameter loop (must-pass-through)",
    "C16": "__getattr__ raises only for names that are not items",
    "C15": "getattr defaults must not hide attributes that the raw class of a wrapper has; "
           "unfiltered merge stores; total look-up",
    "C17": "None-guard of codec names with a reachable `return None`; placeholder objects built "
           "after odxraise vs. dereferences in __post_init__; sibling agreement of the "
           "codec-error handlers",
    "C18": "short names are never tested against NamedItemList.keys(); the parameter comparison "
           "is reached under length / position tests only",
}
for _k, _v in {
    "C01": "effective is_end_of_pdu of every EncodeState construction; first-match agreement of "
           "the multiplexer case selection",
    "C02": "effective is_end_of_pdu of every EncodeState construction",
    "C03": "tolerance ceilings; integer formulas shared with C02",
    "C04": "rounding and multiplexer first-match rules shared with C03 / C01",
    "C05": "registered codec error handler names; names never tested against object lists",
    "C07": "tolerance ceilings of the compu methods",
    "C08": "the constant prefix is encoded as the end of a PDU",
    "C10": "SnRefContext fields owned by the entry points are not written by _resolve_snrefs",
    "C11": "no number formatting in templates; enum members written by value; reference tested "
           "before the object resolved from it",
    "C12": "regex AST check of the bracketed frame length; fromhex guard",
    "C13": "fromhex guard of the log reader",
    "C14": "unconditional response lists; full split of the SNPATHREF",
    "C15": "one-pass collection of sub-values",
    "C17": "the switch is tested by truthiness; prefix-filter coverage shared with C06; the CLI "
           "switch is registered once",
}.items():
    EXTRA[_k] = (EXTRA[_k] + "; " + _v) if _k in EXTRA else _v
# round seven
for _k, _v in {
    "C02": "is_end_of_pdu clear / last-item / restore pairing by CFG dominance and must-pass "
           "queries (shared with C01.R1); one constant byte order in the BIT-MASK helpers",
    "C03": "must-pass-through of both cursor assignments in the value pass of key parameters; "
           "one constant byte order in the BIT-MASK helpers",
    "C06": "wiring table of the inherited candidate sets (diag comms, global negative "
           "responses) shared with C09.R2",
    "C09": "local getters never read a Union[OdxLinkRef, ...] raw field without resolving it",
    "C10": "dominating branch conditions of every resolve call are independent of sibling "
           "reference fields",
    "C11": "nested complex values: element names the recursive writer macro can emit (Jinja "
           "AST, call-site literals) are within those the recursive parser descends into",
    "C14": "one constant byte order in the BIT-MASK helpers of the shared decoder",
    "C15": "the sub-value index ranges over the unfiltered subparams attribute",
    "C18": "decision table of the composite static bit length shared with C08",
}.items():
    EXTRA[_k] = (EXTRA[_k] + "; " + _v) if _k in EXTRA else _v
COMMON = ("; shared over the property's scope: hidden-state rules (mutable defaults, memos keyed "
          "by name, lazily cached values ignoring an argument, memoised methods, indexes derived "
          "from lists that a later initialisation phase extends, containers that accumulate "
          "across Database.refresh), absence tested by identity, description objects not "
          "written at use time")

NOT_APPLICABLE = {}

PENDING = "checker under construction (see DESIGN.md section 3); not claimed yet"


def main() -> None:
    props = [json.loads(l) for l in open(os.path.join(HERE, "properties.jsonl"))]
    checks = []
    na = []
    for p in props:
        pid = p["id"]
        if pid in CLAIMED:
            tech, text, note, ref = CLAIMED[pid]
            checks.append({
                "property_id": pid,
                "quick_cmd": f"/venv/bin/python -m sa.check {pid} --tier quick",
                "thorough_cmd": f"/venv/bin/python -m sa.check {pid} --tier thorough",
                "evidence_file": f"/verif/evidence/{pid}.json",
                "replay_cmd_template": f"/venv/bin/python -m sa.check {pid} --replay {{path}}",
                "engine": "sa",
                "level_claimed": {"category": "other", "text": text, "design_ref": ref},
                "level_note": note,
                "technique": "static analysis: " + tech + (
                    "; " + EXTRA[pid] if pid in EXTRA else "") + COMMON,
            })
        else:
            na.append({"property_id": pid, "reason": NOT_APPLICABLE.get(pid, PENDING)})
    m = {
        "version": 1,
        "setup_cmd": "/venv/bin/python -m compileall -q sa && /venv/bin/python -c \"import ast, jinja2\"",
        "hooks": {
            "guard": "ODXTOOLS_VERIF",
            "enable": "none needed: the checks are static and never import or run odxtools",
            "baseline_off_cmd": "cd /repo && /venv/bin/python -m pytest -ra -q -p no:cacheprovider "
                                "--timeout=900 --continue-on-collection-errors",
            "source_commits": [],
            "add_only": True,
        },
        "engines": [{
            "name": "sa",
            "path": "/verif/sa",
            "serves_properties": sorted(CLAIMED),
            "kind_free_text": "repository-specific static analysis over Python ASTs (source model "
                              "with MRO and import maps, statement CFG with dominators and "
                              "must-pass queries, definite assignment, expression normal forms, "
                              "decision tables, call graph with exception-escape analysis, jinja2 "
                              "template model); never imports or executes odxtools",
        }],
        "checks": checks,
        "notes": "Static analysis only; see DESIGN.md. Exit 0 = all rule instances hold (known "
                 "findings listed in known_findings.json are printed as KNOWN-FINDING), exit 1 = "
                 "VIOLATION, exit 2 = ANALYSIS-ERROR (checker cannot see an anchor).",
        "not_applicable": na,
    }
    with open(os.path.join(HERE, "MANIFEST.json"), "w") as f:
        json.dump(m, f, indent=1)
    print(f"{len(checks)} checks, {len(na)} not claimed")


if __name__ == "__main__":
    main()
