#!/usr/bin/env python3
"""Regenerate the machine-made tables of DESIGN.md section 8 (between the BEGIN/END markers)."""
import json
import os
import re
import subprocess

HERE = os.path.dirname(os.path.dirname(os.path.abspath(__file__)))


def seed_table():
    catches = json.load(open(os.path.join(HERE, "seeded", "CATCHES.json")))
    rows = ["| seed | what the change does (sub-agent's summary, shortened) | caught by (rule ids) |",
            "|---|---|---|"]
    for sid in sorted(catches):
        meta = json.load(open(os.path.join(HERE, "seeded", sid, "meta.json")))
        summ = " ".join(str(meta.get("summary", "")).split())
        if len(summ) > 170:
            summ = summ[:167] + "..."
        summ = summ.replace("|", "\\|")
        own = sid.split("-")[0]
        by = catches[sid]
        parts = []
        for p in sorted(by, key=lambda x: (x != own, x)):
            parts.append(", ".join(by[p]) if by[p] else p)
        rows.append(f"| {sid} | {summ} | {'; '.join(parts)} |")
    return "\n".join(rows)


def status_table():
    kf = json.load(open(os.path.join(HERE, "known_findings.json")))
    rows = ["| property | rules | rule instances today | hold | known findings | `fix:` commits |",
            "|---|---|---|---|---|---|"]
    for i in range(1, 19):
        pid = f"C{i:02d}"
        e = json.load(open(os.path.join(HERE, "evidence", pid + ".json")))
        c = e["coverage"]
        known = sum(1 for x in kf if x["property"] == pid and x["status"] == "known")
        fixed = len({x["commit"] for x in kf if x["property"] == pid and x["status"] == "fixed"})
        rows.append(f"| {pid} | {len(c['rules'])} | {c['obligations']} | {c['discharged']} | "
                    f"{known} | {fixed} |")
    return "\n".join(rows)


def fix_table():
    kf = json.load(open(os.path.join(HERE, "known_findings.json")))
    log = subprocess.run(["git", "-C", "/repo", "log", "--reverse", "--format=%h %s"],
                         capture_output=True, text=True).stdout.splitlines()
    bycommit = {}
    for x in kf:
        if x["status"] == "fixed":
            bycommit.setdefault(x["commit"], set()).add(x["property"])
    rows = ["| commit | subject | properties |", "|---|---|---|"]
    for l in log:
        h, s = l.split(" ", 1)
        if s.startswith("fix:"):
            rows.append(f"| {h} | {s} | {', '.join(sorted(bycommit.get(h, [])))} |")
    return "\n".join(rows)


def known_table():
    kf = json.load(open(os.path.join(HERE, "known_findings.json")))
    rows = ["| finding key | what fails |", "|---|---|"]
    n11 = 0
    for x in kf:
        if x["status"] != "known":
            continue
        if x["key"].startswith("C11.R3/"):
            n11 += 1
            continue
        rows.append(f"| `{x['key']}` | {' '.join(x['what'].split())[:260].replace('|', chr(92) + '|')} |")
    rows.append(f"| `C11.R3/<template>:<macro>/docref-dropped-<TAG>:<expr>` ({n11} sites) | the "
                "reference is written without DOCREF/DOCTYPE (see section 8.5) |")
    return "\n".join(rows)


def main():
    p = os.path.join(HERE, "DESIGN.md")
    s = open(p, encoding="utf-8").read()
    for name, fn in (("SEEDS", seed_table), ("STATUS", status_table), ("FIXES", fix_table),
                     ("KNOWN", known_table)):
        pat = re.compile(rf"(<!-- BEGIN {name} -->\n).*?(<!-- END {name} -->)", re.S)
        if not pat.search(s):
            print("marker missing:", name)
            continue
        s = pat.sub(lambda m: m.group(1) + fn() + "\n" + m.group(2), s)
    open(p, "w", encoding="utf-8").write(s)
    print("tables regenerated")


if __name__ == "__main__":
    main()
