#!/usr/bin/env python3
"""Work with the seeded changes under /verif/seeded/<id>/.

  tools/seeds.py verify [ids...]   confirm each seed in a scratch worktree of /repo HEAD:
                                   patch applies, 140 tests pass, demo fails with / passes without
  tools/seeds.py run [ids...]      run the checkers of the seed's property (and --all: every
                                   claimed check) against a scratch copy with the patch applied;
                                   prints caught / missed
Scratch copies live under /tmp/seedwork and are removed afterwards.
"""
import concurrent.futures as cf
import json
import os
import shutil
import subprocess
import sys

VERIF = os.path.dirname(os.path.dirname(os.path.abspath(__file__)))
SEEDED = os.path.join(VERIF, "seeded")
WORK = f"/tmp/seedwork-{os.getpid()}"
PY = "/venv/bin/python"


def sh(cmd, cwd=None, env=None, timeout=900):
    e = dict(os.environ)
    if env:
        e.update(env)
    p = subprocess.run(cmd, shell=True, cwd=cwd, env=e, capture_output=True, text=True,
                       timeout=timeout)
    return p.returncode, p.stdout + p.stderr


def scratch(name):
    d = os.path.join(WORK, name)
    if os.path.exists(d):
        shutil.rmtree(d)
    os.makedirs(d)
    # a plain copy of the tracked files of /repo's working tree (incl. uncommitted edits)
    rc, out = sh(f"git -C /repo ls-files -z | (cd /repo && xargs -0 cp --parents -t {d})")
    if rc != 0:
        raise RuntimeError(out)
    sh("git init -q . && git add -A && git -c user.name=x -c user.email=x@x commit -qm base", cwd=d)
    return d


def verify(sid):
    sd = os.path.join(SEEDED, sid)
    d = scratch("v-" + sid)
    res = {"seed": sid}
    try:
        rc, out = sh(f"git apply --check {sd}/patch.diff", cwd=d)
        if rc != 0:
            res["applies"] = False
            res["note"] = out.strip()[:300]
            return res
        res["applies"] = True
        env = {"PYTHONPATH": d}
        shutil.copytree(sd, os.path.join(d, "seedx"))
        demo = os.path.join(d, "seedx", "demo.py")
        rc0, out0 = sh(f"{PY} {demo}", cwd=d, env=env)
        res["demo_clean_rc"] = rc0
        sh(f"git apply {sd}/patch.diff", cwd=d)
        rc1, out1 = sh(f"{PY} {demo}", cwd=d, env=env)
        res["demo_seeded_rc"] = rc1
        res["demo_seeded_out"] = out1.strip()[-300:]
        rc2, out2 = sh(f"{PY} -m pytest -q -p no:cacheprovider --timeout=900 -x tests", cwd=d,
                       env=env)
        res["tests_rc"] = rc2
        res["tests_tail"] = out2.strip().splitlines()[-1] if out2.strip() else ""
        res["ok"] = rc0 == 0 and rc1 != 0 and rc2 == 0
        if rc0 != 0:
            res["demo_clean_out"] = out0.strip()[-300:]
        return res
    finally:
        shutil.rmtree(d, ignore_errors=True)


def claimed():
    m = json.load(open(os.path.join(VERIF, "MANIFEST.json")))
    return [c["property_id"] for c in m["checks"]]


def run_seed(sid, props):
    sd = os.path.join(SEEDED, sid)
    d = scratch("r-" + sid)
    res = {"seed": sid, "checks": {}}
    try:
        rc, out = sh(f"git apply {sd}/patch.diff", cwd=d)
        if rc != 0:
            res["applies"] = False
            return res
        for p in props:
            rc, out = sh(f"{PY} -m sa.check {p} --tier quick", cwd=VERIF,
                         env={"ODXTOOLS_REPO": d, "SA_NO_EVIDENCE": "1"})
            viol = [l for l in out.splitlines() if l.startswith("  at ") or
                    l.startswith("ANALYSIS-ERROR")]
            rules = sorted({l.split()[1].rstrip(":") for l in out.splitlines()
                            if l.startswith("  rule ")})
            res["checks"][p] = {"rc": rc, "lines": viol[:6], "rules": rules}
        return res
    finally:
        shutil.rmtree(d, ignore_errors=True)


def main():
    args = sys.argv[1:]
    if not args:
        print(__doc__)
        return 2
    cmd = args[0]
    allp = "--all" in args
    ids = [a for a in args[1:] if not a.startswith("--")] or sorted(
        x for x in os.listdir(SEEDED) if os.path.isdir(os.path.join(SEEDED, x)))
    os.makedirs(WORK, exist_ok=True)
    try:
        if cmd == "verify":
            with cf.ThreadPoolExecutor(8) as ex:
                for r in ex.map(verify, ids):
                    meta_p = os.path.join(SEEDED, r["seed"], "meta.json")
                    try:
                        meta = json.load(open(meta_p))
                    except Exception:
                        meta = {}
                    meta["confirmed"] = {k: v for k, v in r.items() if k != "seed"}
                    meta["confirmed"]["ran"] = [
                        "git apply --check patch.diff (scratch copy of /repo HEAD)",
                        "demo.py on the clean copy (expect exit 0)",
                        "demo.py with the patch (expect exit 1)",
                        "pytest -q tests with the patch (expect all passed)"]
                    json.dump(meta, open(meta_p, "w"), indent=1)
                    print(r["seed"], "OK" if r.get("ok") else "PROBLEM",
                          {k: v for k, v in r.items() if k not in ("seed", "demo_seeded_out")})
        elif cmd == "run":
            cl = claimed()

            def job(sid):
                own = sid.split("-")[0]
                props = cl if allp else [p for p in cl if p == own]
                return run_seed(sid, props)
            table = {}
            with cf.ThreadPoolExecutor(14) as ex:
                for r in ex.map(job, ids):
                    own = r["seed"].split("-")[0]
                    caught = [p for p, c in r["checks"].items() if c["rc"] == 1]
                    table[r["seed"]] = {p: r["checks"][p]["rules"] for p in caught}
                    err = [p for p, c in r["checks"].items() if c["rc"] == 2]
                    status = "CAUGHT" if caught else ("ANALYSIS-ERROR" if err else (
                        "missed" if r["checks"] else "no-check"))
                    if r.get("applies") is False:
                        status = "PATCH-CONFLICT"
                    print(f"{r['seed']}: {status} by={caught} err={err}")
                    for p in caught + err:
                        for l in r["checks"][p]["lines"][:3]:
                            print("     ", l.strip()[:200])
            if "--table" in args:
                json.dump(table, open(os.path.join(SEEDED, "CATCHES.json"), "w"), indent=1,
                          sort_keys=True)
    finally:
        shutil.rmtree(WORK, ignore_errors=True)
    return 0


if __name__ == "__main__":
    sys.exit(main())
