#!/bin/bash
# usage: mut.sh <prop> <file-in-repo> <old> <new>   -- one-off mutation, run check, restore
/venv/bin/python - "$2" "$3" "$4" <<'P'
import sys
p='/repo/'+sys.argv[1]
s=open(p).read()
assert s.count(sys.argv[2])>=1, "pattern not found"
open(p,'w').write(s.replace(sys.argv[2],sys.argv[3],1))
P
(cd /verif; /venv/bin/python -m sa.check $1 --tier quick | grep -a "^  at\|ANALYSIS\|\[quick\]" | cut -c1-330)
git -C /repo checkout -- .
