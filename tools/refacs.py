#!/usr/bin/env python3
"""Behaviour-preserving refactorings under /verif/refactors/<id>/ (patch.diff, demo.py, meta.json),
produced by sub-agents that saw only the property text. Every check must stay silent on them.

  tools/refacs.py collect [ids...]  copy /tmp/wt3/<ID>/refac<k> to /verif/refactors/<ID>-r<k>
  tools/refacs.py verify [ids...]   patch applies to a scratch copy of /repo; the 140 tests pass;
                                    demo.py prints the same DIGEST with and without the patch
  tools/refacs.py run [ids...]      run ALL claimed checks on the patched scratch copy: any
                                    non-zero exit is a false alarm
"""
import concurrent.futures as cf
import json
import os
import re
import shutil
import subprocess
import sys

VERIF = os.path.dirname(os.path.dirname(os.path.abspath(__file__)))
REF = os.path.join(VERIF, "refactors")
WORK = f"/tmp/refacwork-{os.getpid()}"
PY = "/venv/bin/python"


def sh(cmd, cwd=None, env=None, timeout=900):
    e = dict(os.environ)
    if env:
        e.update(env)
    p = subprocess.run(cmd, shell=True, cwd=cwd, env=e, capture_output=True, text=True,
                       timeout=timeout)
    return p.returncode, p.stdout + p.stderr


def scratch(name):
    d = os.path.join(WORK, name)
    if os.path.exists(d):
        shutil.rmtree(d)
    os.makedirs(d)
    rc, out = sh(f"git -C /repo ls-files -z | (cd /repo && xargs -0 cp --parents -t {d})")
    if rc != 0:
        raise RuntimeError(out)
    sh("git init -q . && git add -A && git -c user.name=x -c user.email=x@x commit -qm base", cwd=d)
    return d


def digest(out):
    m = re.findall(r"^DIGEST\s+([0-9a-fA-F]+)", out, re.M)
    return m[-1] if m else None


def verify(rid):
    rd = os.path.join(REF, rid)
    d = scratch("v-" + rid)
    res = {"id": rid}
    try:
        rc, out = sh(f"git apply --check {rd}/patch.diff", cwd=d)
        res["applies"] = rc == 0
        if rc != 0:
            res["note"] = out.strip()[:200]
            return res
        env = {"PYTHONPATH": d}
        shutil.copytree(rd, os.path.join(d, "refacx"))
        demo = os.path.join(d, "refacx", "demo.py")
        rc0, out0 = sh(f"{PY} {demo}", cwd=d, env=env)
        sh(f"git apply {rd}/patch.diff", cwd=d)
        rc1, out1 = sh(f"{PY} {demo}", cwd=d, env=env)
        rc2, out2 = sh(f"{PY} -m pytest -q -p no:cacheprovider --timeout=900 -x tests", cwd=d,
                       env=env)
        res.update(demo_clean_rc=rc0, demo_patched_rc=rc1, digest_clean=digest(out0),
                   digest_patched=digest(out1), tests_rc=rc2,
                   tests_tail=out2.strip().splitlines()[-1] if out2.strip() else "")
        res["ok"] = rc0 == 0 and rc1 == 0 and rc2 == 0 and res["digest_clean"] is not None and \
            res["digest_clean"] == res["digest_patched"]
        return res
    finally:
        shutil.rmtree(d, ignore_errors=True)


def run_one(rid):
    rd = os.path.join(REF, rid)
    d = scratch("r-" + rid)
    res = {"id": rid, "checks": {}}
    try:
        rc, out = sh(f"git apply {rd}/patch.diff", cwd=d)
        if rc != 0:
            res["applies"] = False
            return res
        m = json.load(open(os.path.join(VERIF, "MANIFEST.json")))
        for c in m["checks"]:
            p = c["property_id"]
            rc, out = sh(f"{PY} -m sa.check {p} --tier quick", cwd=VERIF,
                         env={"ODXTOOLS_REPO": d, "SA_NO_EVIDENCE": "1"})
            lines = [l for l in out.splitlines() if l.startswith("  at ") or
                     l.startswith("ANALYSIS-ERROR")]
            res["checks"][p] = {"rc": rc, "lines": lines[:5]}
        return res
    finally:
        shutil.rmtree(d, ignore_errors=True)


def main():
    args = sys.argv[1:]
    if not args:
        print(__doc__)
        return 2
    cmd = args[0]
    os.makedirs(REF, exist_ok=True)
    os.makedirs(WORK, exist_ok=True)
    try:
        if cmd == "collect":
            src = os.environ.get("REFAC_SRC", "/tmp/wt4")
            pids = args[1:] or sorted(x for x in os.listdir(src)
                                      if os.path.isdir(os.path.join(src, x)))
            for pid in pids:
                for k in (1, 2, 3):
                    sd = os.path.join(src, pid, f"refac{k}")
                    if not (os.path.isfile(os.path.join(sd, "patch.diff")) and
                            os.path.isfile(os.path.join(sd, "demo.py"))):
                        continue
                    dd = os.path.join(REF, f"{pid}-r{k + int(os.environ.get('REFAC_OFFSET', '0'))}")
                    if os.path.exists(dd):
                        shutil.rmtree(dd)
                    shutil.copytree(sd, dd, ignore=shutil.ignore_patterns(
                        "__pycache__", "*.pyc", "*.pdx"))
                    print("collected", f"{pid}-r{k + int(os.environ.get('REFAC_OFFSET', '0'))}")
            return 0
        ids = [a for a in args[1:] if not a.startswith("--")] or sorted(
            x for x in os.listdir(REF) if os.path.isdir(os.path.join(REF, x)))
        if cmd == "verify":
            with cf.ThreadPoolExecutor(8) as ex:
                for r in ex.map(verify, ids):
                    mp = os.path.join(REF, r["id"], "meta.json")
                    try:
                        meta = json.load(open(mp))
                    except Exception:
                        meta = {}
                    meta["confirmed"] = {k: v for k, v in r.items() if k != "id"}
                    json.dump(meta, open(mp, "w"), indent=1)
                    print(r["id"], "OK" if r.get("ok") else "PROBLEM",
                          {k: v for k, v in r.items() if k != "id"})
        elif cmd == "run":
            bad = 0
            with cf.ThreadPoolExecutor(14) as ex:
                for r in ex.map(run_one, ids):
                    if r.get("applies") is False:
                        print(f"{r['id']}: PATCH-CONFLICT")
                        continue
                    alarms = {p: c for p, c in r["checks"].items() if c["rc"] != 0}
                    if alarms:
                        bad += 1
                        print(f"{r['id']}: FALSE ALARM in {sorted(alarms)}")
                        for p, c in sorted(alarms.items()):
                            for l in c["lines"][:3]:
                                print("     ", p, l.strip()[:220])
                    else:
                        print(f"{r['id']}: silent")
            return 1 if bad else 0
    finally:
        shutil.rmtree(WORK, ignore_errors=True)
    return 0


if __name__ == "__main__":
    sys.exit(main())
